//! C20 in-process companion: for every name of length <= N over the special alphabet, emulate
//! what lineread does on TAB (word start, complete_path, splice the completion + suffix) and plan
//! the resulting line; the program's argv[1] must be the entry's name.
use std::collections::BTreeMap;
use std::fs;
use std::panic::{self, AssertUnwindSafe};

use cicada::verif as v;
use lineread::complete::Suffix;

const ALPHA: [char; 30] = [
    ' ', '\'', '"', '$', '*', '{', '}', '~', '#', '|', '&', ';', '<', '>', '(', ')', '\\', '!', '?', '[', ']', '`', ',', '^',
    '=', '%', 'a', 'é', '-', '.',
];

fn jstr(s: &str) -> String {
    let mut o = String::from("\"");
    for c in s.chars() {
        match c {
            '"' => o.push_str("\\\""),
            '\\' => o.push_str("\\\\"),
            c if (c as u32) < 0x20 => o.push_str(&format!("\\u{:04x}", c as u32)),
            c => o.push(c),
        }
    }
    o.push('"');
    o
}

fn type_prefix(prefix: &str, ctx: &str) -> Option<String> {
    let mut out = String::new();
    match ctx {
        "unq" => {
            for c in prefix.chars() {
                if !(c.is_alphanumeric() || c == '-' || c == '.' || c == 'é') {
                    out.push('\\');
                }
                out.push(c);
            }
        }
        "dq" => {
            out.push('"');
            for c in prefix.chars() {
                if c == '"' || c == '\\' || c == '$' || c == '`' {
                    out.push('\\');
                }
                out.push(c);
            }
        }
        _ => {
            if prefix.contains('\'') {
                return None;
            }
            out.push('\'');
            out.push_str(prefix);
        }
    }
    Some(out)
}

/// Known mechanisms by which inserted text is read back differently (see C01's ESC findings):
/// the name of the mechanism a name triggers in a quoting context, or None.
fn family(name: &str, ctx: &str, prefix: &str) -> Option<&'static str> {
    if prefix.contains('|') {
        // the completer splits the word at `|` (so that `ls|wc<TAB>` completes a command name)
        return Some("typed-prefix-contains-a-pipe-character");
    }
    let pc: Vec<char> = prefix.chars().collect();
    if ctx == "unq" && pc.windows(2).any(|w| w[0] == '$' && (w[1].is_ascii_alphabetic() || w[1] == '_')) {
        return Some("unquoted:prefix-that-looks-like-a-variable-reference-is-completed-unescaped");
    }
    let chars: Vec<char> = name.chars().collect();
    let dollar_ref = chars.windows(2).any(|w| w[0] == '$' && (w[1].is_alphanumeric() || w[1] == '_' || w[1] == '$' || w[1] == '?' || w[1] == '{' || w[1] == '('));
    let bq_pair = chars.iter().filter(|c| **c == '`').count() >= 2;
    match ctx {
        "unq" => {
            if name.starts_with('~') {
                Some("unquoted:leading-tilde-is-not-protected")
            } else if bq_pair {
                Some("unquoted:escaped-backquote-pair-is-run")
            } else if dollar_ref && !name.starts_with('$') || (name.starts_with('$') && chars.iter().skip(1).collect::<String>().contains('$') && dollar_ref && chars.windows(2).skip(1).any(|w| w[0] == '$')) {
                Some("unquoted:escaped-dollar-not-at-word-start-is-expanded")
            } else if name.contains('*') {
                Some("unquoted:escaped-star-is-globbed")
            } else if name.ends_with('&') {
                Some("unquoted:escaped-ampersand-as-last-word-backgrounds")
            } else if name.contains('{') && name.contains(',') && name.contains('}') {
                Some("unquoted:escaped-braces-are-expanded")
            } else {
                None
            }
        }
        "dq" => {
            if name.ends_with('\\') {
                Some("double-quoted:trailing-backslash-escapes-the-closing-quote")
            } else if name.contains("\\\"") {
                Some("double-quoted:backslash-directly-before-a-double-quote-in-name")
            } else if dollar_ref {
                Some("double-quoted:dollar-reference-in-name-is-expanded")
            } else if bq_pair {
                Some("double-quoted:backquote-pair-in-name-is-run")
            } else {
                None
            }
        }
        _ => {
            if name.contains('\'') {
                Some("single-quoted:name-contains-a-single-quote")
            } else {
                None
            }
        }
    }
}

fn class_of(name: &str) -> String {
    let mut cs: Vec<char> = name.chars().filter(|c| !c.is_alphanumeric()).collect();
    cs.sort();
    cs.dedup();
    cs.into_iter().map(|c| if c == ' ' { "SP".to_string() } else { c.to_string() }).collect::<Vec<_>>().join("")
}

pub fn main(args: &[String]) {
    let maxlen: usize = args[0].parse().unwrap();
    let shard: u64 = args[1].parse().unwrap();
    let nshards: u64 = args[2].parse().unwrap();
    let dir = args[3].clone();
    unsafe {
        let fd = libc::open(b"/dev/null\0".as_ptr() as *const libc::c_char, libc::O_WRONLY);
        if fd >= 0 {
            libc::dup2(fd, 2);
        }
    }
    panic::set_hook(Box::new(|_| {}));
    v::set_step_budget(2000);
    v::set_exec_hook(Some(Box::new(|_cl, _c| Some(v::CommandResult::new()))));
    std::env::set_var("HOME", "/nonexistent-home-sentinel");
    fs::create_dir_all(&dir).unwrap();
    std::env::set_current_dir(&dir).unwrap();
    let mut sh = v::Shell::new();
    let mut total = 0u64;
    let mut judged = 0u64;
    let mut untypable = 0u64;
    let mut failures: BTreeMap<String, (u64, String)> = BTreeMap::new();
    let mut idx = 0u64;
    for len in 1..=maxlen {
        let n = (ALPHA.len() as u64).pow(len as u32);
        for k in 0..n {
            idx += 1;
            if idx % nshards != shard {
                continue;
            }
            let mut name = String::new();
            let mut kk = k;
            for _ in 0..len {
                name.push(ALPHA[(kk % ALPHA.len() as u64) as usize]);
                kk /= ALPHA.len() as u64;
            }
            if name == "." || name == ".." {
                continue;
            }
            for is_dir in [false, true] {
                if is_dir && k % 5 != 0 {
                    continue;
                }
                // a directory holding exactly this entry
                for e in fs::read_dir(".").unwrap().flatten() {
                    let p = e.path();
                    if p.is_dir() {
                        let _ = fs::remove_dir_all(&p);
                    } else {
                        let _ = fs::remove_file(&p);
                    }
                }
                let made = if is_dir { fs::create_dir(&name).is_ok() } else { fs::File::create(&name).is_ok() };
                if !made {
                    continue;
                }
                let nchars = name.chars().count();
                for (ctx, plen) in ["unq", "dq", "sq"].iter().flat_map(|c| (1..=nchars).map(move |k| (*c, k))) {
                    let first: String = name.chars().take(plen).collect();
                    // how would a user type this prefix here?  Take the first spelling (escaped as usual, or raw)
                    // that cicada's own tokenizer reads back as the intended prefix; if there is none the
                    // prefix cannot be typed in this context and the case says nothing about completion.
                    let open = match ctx { "dq" => "\"", "sq" => "'", _ => "" };
                    let mut typed_word = None;
                    let each_escaped: String = first.chars().map(|c| format!("\\{}", c)).collect();
                    for cand in [type_prefix(&first, ctx), Some(format!("{}{}", open, first)), Some(format!("{}{}", open, each_escaped))].into_iter().flatten() {
                        let ok = panic::catch_unwind(AssertUnwindSafe(|| {
                            let t = v::parse_line(&cand).tokens;
                            t.len() == 1 && t[0].1 == first
                        })).unwrap_or(false);
                        if ok {
                            typed_word = Some(cand);
                            break;
                        }
                    }
                    let typed_word = match typed_word {
                        Some(x) => x,
                        None => { untypable += 1; continue; }
                    };
                    total += 1;
                    let typed = format!("vp_argv {}", typed_word);
                    let want = if is_dir { format!("{}/", name) } else { name.clone() };
                    let res = panic::catch_unwind(AssertUnwindSafe(|| -> Result<(), String> {
                        v::tick_reset();
                        let end = typed.len();
                        let start = v::escaped_word_start(&typed[..end]);
                        if start > end || !typed.is_char_boundary(start) {
                            return Err("word-start-not-usable".to_string());
                        }
                        let word = &typed[start..end];
                        let comps = v::complete_path(word, false);
                        if comps.len() != 1 {
                            return Err(format!("candidates-{}-instead-of-1", comps.len()));
                        }
                        let c = &comps[0];
                        let mut line = format!("{}{}", &typed[..start], c.completion);
                        match c.suffix {
                            Suffix::Some(ch) => line.push(ch),
                            Suffix::Default => line.push(' '),
                            Suffix::None => {}
                        }
                        if is_dir && ctx != "unq" {
                            // the user closes the quote after a directory
                            line.push(if ctx == "dq" { '"' } else { '\'' });
                        }
                        // the line goes through the list splitter first, as a submitted line does
                        let cmds = v::line_to_cmds(&line);
                        if cmds.len() != 1 {
                            return Err("inserted-text-splits-the-line-into-several-commands".to_string());
                        }
                        let line = cmds[0].clone();
                        let cl = v::CommandLine::from_line(&line, &mut sh)
                            .map_err(|e| format!("line-rejected:{}", e.chars().take(20).collect::<String>()))?;
                        if cl.commands.len() != 1 || cl.background || !cl.commands[0].redirects_to.is_empty() || cl.commands[0].redirect_from.is_some() {
                            return Err("inserted-text-acts-as-operator".to_string());
                        }
                        let argv: Vec<String> = cl.commands[0].tokens.iter().map(|t| t.1.clone()).collect();
                        if argv.len() != 2 {
                            return Err(format!("argv-has-{}-words", argv.len()));
                        }
                        if argv[1] != want {
                            return Err("argument-differs-from-entry-name".to_string());
                        }
                        Ok(())
                    }));
                    judged += 1;
                    let err = match res {
                        Ok(Ok(())) => None,
                        Ok(Err(e)) => Some(e),
                        Err(_) => Some("panic".to_string()),
                    };
                    if let Some(e) = err {
                        let sig = match family(&name, ctx, &first) {
                            Some(f) => format!("C20:{}", f),
                            None => format!("C20:inprocess:{}:chars={}:{}{}", ctx, class_of(&name), e, if is_dir { ":dir" } else { "" }),
                        };
                        let ent = failures.entry(sig).or_insert((0, name.clone()));
                        ent.0 += 1;
                        if name.len() < ent.1.len() {
                            ent.1 = name.clone();
                        }
                    }
                }
            }
        }
    }
    let mut out = String::from("[");
    for (i, (sig, (n, ex))) in failures.iter().enumerate() {
        if i > 0 {
            out.push(',');
        }
        out.push_str(&format!("{{\"signature\":{},\"count\":{},\"example\":{}}}", jstr(sig), n, jstr(ex)));
    }
    out.push(']');
    println!("{{\"maxlen\":{},\"cases\":{},\"judged\":{},\"prefix_cannot_be_typed\":{},\"failures\":{}}}", maxlen, total, judged, untypable, out);
}


/// candidate sets: complete_path must offer exactly the entries starting with the typed prefix
/// (directories only when completing for `cd`)
pub fn cand_main(args: &[String]) {
    let dir = args[0].clone();
    unsafe {
        let fd = libc::open(b"/dev/null\0".as_ptr() as *const libc::c_char, libc::O_WRONLY);
        if fd >= 0 {
            libc::dup2(fd, 2);
        }
    }
    panic::set_hook(Box::new(|_| {}));
    let pops: Vec<Vec<(&str, bool)>> = vec![
        vec![("alpha", false), ("alps", false), ("alp", true), ("beta", false), ("be ta", false), ("b", true), (".hid", false)],
        vec![("x1", false), ("x2", false), ("x", false), ("xdir", true), ("xd2", true), ("y", true)],
        vec![("é1", false), ("éa", true), ("e", false), ("中文", false), ("中", true)],
        vec![("only", false)],
        vec![("d1", true), ("d2", true), ("d-3", true), ("f1", false), ("f-2", false), ("a.b", false), ("a.c", false), ("a-b", false),
             ("a b", false), ("a", true), ("ab", true), ("abc", false)],
    ];
    let mut total = 0u64;
    let mut failures: BTreeMap<String, (u64, String)> = BTreeMap::new();
    for (pi, pop) in pops.iter().enumerate() {
        let d = format!("{}/p{}", dir, pi);
        let _ = fs::remove_dir_all(&d);
        fs::create_dir_all(&d).unwrap();
        std::env::set_current_dir(&d).unwrap();
        for (n, isd) in pop {
            if *isd { fs::create_dir(n).unwrap(); } else { fs::File::create(n).unwrap(); }
        }
        let mut prefixes: Vec<String> = vec![String::new()];
        for (n, _) in pop {
            let cs: Vec<char> = n.chars().collect();
            for k in 1..=cs.len().min(3) {
                prefixes.push(cs[..k].iter().collect());
            }
        }
        prefixes.push("zz".to_string());
        prefixes.sort();
        prefixes.dedup();
        for pre in &prefixes {
            for for_dir in [false, true] {
                total += 1;
                let typed: String = pre.chars().map(|c| if c == ' ' { "\\ ".to_string() } else { c.to_string() }).collect();
                let mut want: Vec<String> = pop.iter().filter(|(n, isd)| n.starts_with(pre.as_str()) && (!for_dir || *isd)).map(|(n, _)| n.to_string()).collect();
                want.sort();
                let got = panic::catch_unwind(AssertUnwindSafe(|| {
                    let mut g: Vec<String> = v::complete_path(&typed, for_dir).iter().map(|c| {
                        let t = v::parse_line(&c.completion).tokens;
                        if t.len() == 1 { t[0].1.clone() } else { c.completion.clone() }
                    }).collect();
                    g.sort();
                    g
                }));
                let bad = match got {
                    Ok(g) => if g == want { None } else if g.len() > want.len() { Some("offers-entries-that-do-not-match") } else if g.len() < want.len() { Some("misses-matching-entries") } else { Some("offers-different-entries") },
                    Err(_) => Some("panic"),
                };
                if let Some(b) = bad {
                    let sig = format!("C20:candidates:{}:{}", if for_dir { "for-cd" } else { "for-path" }, b);
                    let e = failures.entry(sig).or_insert((0, format!("population {} prefix {:?}", pi, pre)));
                    e.0 += 1;
                }
            }
        }
    }
    let mut out = String::from("[");
    for (i, (sig, (n, ex))) in failures.iter().enumerate() {
        if i > 0 {
            out.push(',');
        }
        out.push_str(&format!("{{\"signature\":{},\"count\":{},\"example\":{}}}", jstr(sig), n, jstr(ex)));
    }
    out.push(']');
    println!("{{\"candidate_queries\":{},\"failures\":{}}}", total, out);
}
