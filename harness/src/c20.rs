//! C20 in-process companion: for every name of length <= N over the special alphabet, emulate
//! what lineread does on TAB (word start, complete_path, splice the completion + suffix) and plan
//! the resulting line; the program's argv[1] must be the entry's name.
use std::collections::BTreeMap;
use std::fs;
use std::panic::{self, AssertUnwindSafe};

use cicada::verif as v;
use lineread::complete::Suffix;

const ALPHA: [char; 30] = [
    ' ', '\'', '"', '$', '*', '{', '}', '~', '#', '|', '&', ';', '<', '>', '(', ')', '\\', '!', '?', '[', ']', '`', ',', '^',
    '=', '%', 'a', 'é', '-', '.',
];

fn jstr(s: &str) -> String {
    let mut o = String::from("\"");
    for c in s.chars() {
        match c {
            '"' => o.push_str("\\\""),
            '\\' => o.push_str("\\\\"),
            c if (c as u32) < 0x20 => o.push_str(&format!("\\u{:04x}", c as u32)),
            c => o.push(c),
        }
    }
    o.push('"');
    o
}

fn type_prefix(prefix: &str, ctx: &str) -> Option<String> {
    let mut out = String::new();
    match ctx {
        "unq" => {
            for c in prefix.chars() {
                if !(c.is_alphanumeric() || c == '-' || c == '.' || c == 'é') {
                    out.push('\\');
                }
                out.push(c);
            }
        }
        "dq" => {
            out.push('"');
            for c in prefix.chars() {
                if c == '"' || c == '\\' || c == '$' || c == '`' {
                    out.push('\\');
                }
                out.push(c);
            }
        }
        _ => {
            if prefix.contains('\'') {
                return None;
            }
            out.push('\'');
            out.push_str(prefix);
        }
    }
    Some(out)
}

fn class_of(name: &str) -> String {
    let mut cs: Vec<char> = name.chars().filter(|c| !c.is_alphanumeric()).collect();
    cs.sort();
    cs.dedup();
    cs.into_iter().map(|c| if c == ' ' { "SP".to_string() } else { c.to_string() }).collect::<Vec<_>>().join("")
}

pub fn main(args: &[String]) {
    let maxlen: usize = args[0].parse().unwrap();
    let shard: u64 = args[1].parse().unwrap();
    let nshards: u64 = args[2].parse().unwrap();
    let dir = args[3].clone();
    unsafe {
        let fd = libc::open(b"/dev/null\0".as_ptr() as *const libc::c_char, libc::O_WRONLY);
        if fd >= 0 {
            libc::dup2(fd, 2);
        }
    }
    panic::set_hook(Box::new(|_| {}));
    v::set_step_budget(2000);
    v::set_exec_hook(Some(Box::new(|_cl, _c| Some(v::CommandResult::new()))));
    std::env::set_var("HOME", "/nonexistent-home-sentinel");
    fs::create_dir_all(&dir).unwrap();
    std::env::set_current_dir(&dir).unwrap();
    let mut sh = v::Shell::new();
    let mut total = 0u64;
    let mut judged = 0u64;
    let mut failures: BTreeMap<String, (u64, String)> = BTreeMap::new();
    let mut idx = 0u64;
    for len in 1..=maxlen {
        let n = (ALPHA.len() as u64).pow(len as u32);
        for k in 0..n {
            idx += 1;
            if idx % nshards != shard {
                continue;
            }
            let mut name = String::new();
            let mut kk = k;
            for _ in 0..len {
                name.push(ALPHA[(kk % ALPHA.len() as u64) as usize]);
                kk /= ALPHA.len() as u64;
            }
            if name == "." || name == ".." {
                continue;
            }
            for is_dir in [false, true] {
                if is_dir && k % 5 != 0 {
                    continue;
                }
                // a directory holding exactly this entry
                for e in fs::read_dir(".").unwrap().flatten() {
                    let p = e.path();
                    if p.is_dir() {
                        let _ = fs::remove_dir_all(&p);
                    } else {
                        let _ = fs::remove_file(&p);
                    }
                }
                let made = if is_dir { fs::create_dir(&name).is_ok() } else { fs::File::create(&name).is_ok() };
                if !made {
                    continue;
                }
                for ctx in ["unq", "dq", "sq"] {
                    let first: String = name.chars().take(1).collect();
                    let typed_word = match type_prefix(&first, ctx) {
                        Some(x) => x,
                        None => continue,
                    };
                    total += 1;
                    let typed = format!("vp_argv {}", typed_word);
                    let want = if is_dir { format!("{}/", name) } else { name.clone() };
                    let res = panic::catch_unwind(AssertUnwindSafe(|| -> Result<(), String> {
                        v::tick_reset();
                        let end = typed.len();
                        let start = v::escaped_word_start(&typed[..end]);
                        if start > end || !typed.is_char_boundary(start) {
                            return Err("word-start-not-usable".to_string());
                        }
                        let word = &typed[start..end];
                        let comps = v::complete_path(word, false);
                        if comps.len() != 1 {
                            return Err(format!("candidates-{}-instead-of-1", comps.len()));
                        }
                        let c = &comps[0];
                        let mut line = format!("{}{}", &typed[..start], c.completion);
                        match c.suffix {
                            Suffix::Some(ch) => line.push(ch),
                            Suffix::Default => line.push(' '),
                            Suffix::None => {}
                        }
                        if is_dir && ctx != "unq" {
                            // the user closes the quote after a directory
                            line.push(if ctx == "dq" { '"' } else { '\'' });
                        }
                        let cl = v::CommandLine::from_line(line.trim_end_matches(' ').trim_end_matches(|c| c == ' '), &mut sh)
                            .map_err(|e| format!("line-rejected:{}", e.chars().take(20).collect::<String>()))?;
                        if cl.commands.len() != 1 || cl.background || !cl.commands[0].redirects_to.is_empty() || cl.commands[0].redirect_from.is_some() {
                            return Err("inserted-text-acts-as-operator".to_string());
                        }
                        let argv: Vec<String> = cl.commands[0].tokens.iter().map(|t| t.1.clone()).collect();
                        if argv.len() != 2 {
                            return Err(format!("argv-has-{}-words", argv.len()));
                        }
                        if argv[1] != want {
                            return Err("argument-differs-from-entry-name".to_string());
                        }
                        Ok(())
                    }));
                    judged += 1;
                    let err = match res {
                        Ok(Ok(())) => None,
                        Ok(Err(e)) => Some(e),
                        Err(_) => Some("panic".to_string()),
                    };
                    if let Some(e) = err {
                        let sig = format!("C20:inprocess:{}:chars={}:{}{}", ctx, class_of(&name), e, if is_dir { ":dir" } else { "" });
                        let ent = failures.entry(sig).or_insert((0, name.clone()));
                        ent.0 += 1;
                        if name.len() < ent.1.len() {
                            ent.1 = name.clone();
                        }
                    }
                }
            }
        }
    }
    let mut out = String::from("[");
    for (i, (sig, (n, ex))) in failures.iter().enumerate() {
        if i > 0 {
            out.push(',');
        }
        out.push_str(&format!("{{\"signature\":{},\"count\":{},\"example\":{}}}", jstr(sig), n, jstr(ex)));
    }
    out.push(']');
    println!("{{\"maxlen\":{},\"cases\":{},\"judged\":{},\"failures\":{}}}", maxlen, total, judged, out);
}
