//! C05 layer 1: every short string over two 14-symbol alphabets through all pure stages of
//! cicada, in-process, each call under catch_unwind with a step budget on the rewrite loops.
use std::cell::RefCell;
use std::collections::BTreeMap;
use std::panic::{self, AssertUnwindSafe};

use cicada::verif as v;
use lineread::highlighting::Highlighter;

thread_local! {
    static LAST_PANIC: RefCell<String> = RefCell::new(String::new());
}

const ALPHA_A: [&str; 14] = ["'", "\"", "`", "\\", "$", "(", ")", "{", "}", "|", "&", ">", " ", "a"];
// multi-byte characters next to the characters the tokenizer looks ahead for
const ALPHA_C: [&str; 14] = ["|", "(", ")", "'", "\"", "\\", "$", " ", "é", "中", "a", ">", "&", ";"];
// backslashes next to every kind of blank (ASCII, tab, newline, multi-byte Unicode white space) and list separators
const ALPHA_D: [&str; 14] = ["\\", "\u{3000}", "\u{a0}", "\u{2003}", " ", "\t", "\n", ";", "a", "|", "&", "'", "\"", "$"];
const ALPHA_B: [&str; 14] = [";", "<", "*", "~", "#", ",", "..", "1", "+", "^", "=", "é", "$X", "2>&1"];

fn jstr(s: &str) -> String {
    let mut o = String::from("\"");
    for c in s.chars() {
        match c {
            '"' => o.push_str("\\\""),
            '\\' => o.push_str("\\\\"),
            '\n' => o.push_str("\\n"),
            c if (c as u32) < 0x20 => o.push_str(&format!("\\u{:04x}", c as u32)),
            c => o.push(c),
        }
    }
    o.push('"');
    o
}

// what the watchdog reports: the stage and the input being evaluated when SIGALRM arrives
static mut CUR_STAGE: &str = "";
static mut CUR_INPUT: [u8; 256] = [0; 256];
static mut CUR_LEN: usize = 0;

extern "C" fn on_alarm(_sig: libc::c_int) {
    // async-signal-safe: format by hand, write(2), _exit
    unsafe {
        let mut buf = [0u8; 700];
        let mut n = 0;
        for b in b"\nHANG " {
            buf[n] = *b;
            n += 1;
        }
        for b in CUR_STAGE.as_bytes() {
            buf[n] = *b;
            n += 1;
        }
        buf[n] = b' ';
        n += 1;
        let hex = b"0123456789abcdef";
        for i in 0..CUR_LEN {
            buf[n] = hex[(CUR_INPUT[i] >> 4) as usize];
            buf[n + 1] = hex[(CUR_INPUT[i] & 15) as usize];
            n += 2;
        }
        buf[n] = b'\n';
        n += 1;
        libc::write(1, buf.as_ptr() as *const libc::c_void, n);
        libc::_exit(4);
    }
}

fn guarded<F: FnOnce()>(stage: &'static str, f: F) -> Option<String> {
    unsafe {
        CUR_STAGE = stage;
    }
    v::tick_reset();
    LAST_PANIC.with(|p| p.borrow_mut().clear());
    match panic::catch_unwind(AssertUnwindSafe(f)) {
        Ok(_) => None,
        Err(payload) => {
            let msg = if let Some(s) = payload.downcast_ref::<String>() {
                s.clone()
            } else if let Some(s) = payload.downcast_ref::<&str>() {
                s.to_string()
            } else {
                "?".to_string()
            };
            let loc = LAST_PANIC.with(|p| p.borrow().clone());
            if msg.contains("step budget exceeded") {
                Some(format!("{}:non-terminating-rewrite:{}", stage, msg.rsplit(' ').next().unwrap_or("?")))
            } else {
                Some(format!("{}:panic@{}", stage, loc))
            }
        }
    }
}

fn check_line(s: &str, sh: &mut v::Shell, fails: &mut Vec<String>) {
    let mut push = |r: Option<String>| {
        if let Some(x) = r {
            fails.push(x);
        }
    };
    push(guarded("line_to_cmds", || {
        let _ = v::line_to_cmds(s);
    }));
    push(guarded("parse_line", || {
        let li = v::parse_line(s);
        let _ = v::tokens_to_line(&li.tokens);
        let _ = v::tokens_to_redirections(&li.tokens);
        let _ = v::Command::from_tokens(li.tokens.clone());
    }));
    push(guarded("plan", || {
        for seg in v::line_to_cmds(s) {
            if seg == ";" || seg == "&&" || seg == "||" {
                continue;
            }
            if let Ok(cl) = v::CommandLine::from_line(&seg, sh) {
                // what run_proc / run_pipeline look at before forking
                if !cl.is_empty() {
                    let _ = cl.is_single_and_builtin();
                    for c in &cl.commands {
                        let _ = c.tokens.first().map(|t| t.1.clone());
                        let _ = c.is_builtin();
                    }
                }
            }
        }
    }));
    push(guarded("do_expansion", || {
        let mut t = v::parse_line(s).tokens;
        v::do_expansion(sh, &mut t);
    }));
    push(guarded("calculator", || {
        if v::is_arithmetic(s) {
            let _ = v::run_calculator(s);
        }
    }));
    push(guarded("script", || {
        let _ = v::script_tree(s);
        let args = vec!["s.sh".to_string(), "a1".to_string(), "b 2".to_string()];
        let _ = v::expand_args(s, &args);
    }));
    push(guarded("interactive-line", || {
        let _ = v::trim_multiline_prompts(s);
        let mut l = s.to_string();
        v::extend_bangbang(sh, &mut l);
    }));
    push(guarded("interactive-line-after-a-command-containing-bangbang", || {
        // the previous command may itself contain `!!` (quoted, it is recorded verbatim)
        let keep = sh.previous_cmd.clone();
        sh.previous_cmd = "p '!!' x!!".to_string();
        for cand in [s.to_string(), format!("{} !!", s), format!("!!{}", s)] {
            let mut l = cand;
            v::extend_bangbang(sh, &mut l);
        }
        sh.previous_cmd = keep;
    }));
    push(guarded("highlight", || {
        let h = v::CicadaHighlighter;
        let _ = h.highlight(s);
    }));
    push(guarded("word-start", || {
        for end in 0..=s.len() {
            if !s.is_char_boundary(end) {
                continue;
            }
            let start = v::escaped_word_start(&s[..end]);
            // the slice lineread takes for the completer
            let _ = &s[start..end];
        }
    }));
}

pub fn main(args: &[String]) {
    let which = args[0].as_str();
    let maxlen: usize = args[1].parse().unwrap();
    let shard: u64 = args[2].parse().unwrap();
    let nshards: u64 = args[3].parse().unwrap();
    unsafe {
        let fd = libc::open(b"/dev/null\0".as_ptr() as *const libc::c_char, libc::O_WRONLY);
        if fd >= 0 {
            libc::dup2(fd, 2);
            libc::dup2(fd, 1 + 100); // keep 1 for results
        }
    }
    panic::set_hook(Box::new(|info| {
        let loc = info.location().map(|l| format!("{}:{}", l.file(), l.line())).unwrap_or_default();
        LAST_PANIC.with(|p| *p.borrow_mut() = loc);
    }));
    if args.len() > 4 {
        // an empty directory: `*` and `~` must not walk a big tree for every string
        std::fs::create_dir_all(&args[4]).unwrap();
        std::env::set_current_dir(&args[4]).unwrap();
        std::env::set_var("HOME", &args[4]);
    }
    unsafe {
        // watchdog for loops that no step counter sees, and a ceiling for runaway allocation
        libc::signal(libc::SIGALRM, on_alarm as usize);
        let lim = libc::rlimit { rlim_cur: 8 << 30, rlim_max: 8 << 30 };
        libc::setrlimit(libc::RLIMIT_AS, &lim);
    }
    std::env::set_var("PATH", "/nonexistent-bin");
    std::env::set_var("X", "$X");
    std::env::set_var("Y", "$Z");
    std::env::set_var("Z", "$Y");
    v::set_step_budget(2000);
    v::set_exec_hook(Some(Box::new(|_cl, _capture| Some(v::CommandResult::new()))));
    let alpha: &[&str] = if which == "A" { &ALPHA_A } else if which == "C" { &ALPHA_C } else if which == "D" { &ALPHA_D } else { &ALPHA_B };
    let mut sh = v::Shell::new();
    sh.previous_cmd = "prev cmd".to_string();
    let mut total: u64 = 0;
    let mut failures: BTreeMap<String, (u64, String)> = BTreeMap::new();
    let mut idx: u64 = 0;
    let mut sample = Vec::new();
    for len in 0..=maxlen {
        let n = (alpha.len() as u64).pow(len as u32);
        for k in 0..n {
            idx += 1;
            if idx % nshards != shard {
                continue;
            }
            let mut s = String::new();
            let mut kk = k;
            for _ in 0..len {
                s.push_str(alpha[(kk % alpha.len() as u64) as usize]);
                kk /= alpha.len() as u64;
            }
            total += 1;
            if sample.len() < 4 && len == maxlen && k % 977 == 3 {
                sample.push(s.clone());
            }
            let mut fails = Vec::new();
            unsafe {
                let b = s.as_bytes();
                CUR_LEN = b.len().min(256);
                CUR_INPUT[..CUR_LEN].copy_from_slice(&b[..CUR_LEN]);
                libc::alarm(20);
            }
            check_line(&s, &mut sh, &mut fails);
            unsafe {
                libc::alarm(0);
            }
            for f in fails {
                let e = failures.entry(f).or_insert((0, s.clone()));
                e.0 += 1;
                if s.len() < e.1.len() {
                    e.1 = s.clone();
                }
            }
        }
    }
    let mut out = String::from("[");
    for (i, (sig, (n, ex))) in failures.iter().enumerate() {
        if i > 0 {
            out.push(',');
        }
        out.push_str(&format!("{{\"signature\":{},\"count\":{},\"example\":{}}}", jstr(sig), n, jstr(ex)));
    }
    out.push(']');
    println!("{{\"alphabet\":{},\"maxlen\":{},\"strings\":{},\"samples\":[{}],\"failures\":{}}}", jstr(which), maxlen, total,
             sample.iter().map(|s| jstr(s)).collect::<Vec<_>>().join(","), out);
}
