//! C06: the real job-table code (Shell job methods, wait_fg_job, try_wait_bg_jobs,
//! handle_sigchld) driven by a virtual kernel through the waitpid injection hook, under every
//! schedule up to a bound, with an online reference model.
use std::cell::RefCell;
use std::collections::{BTreeMap, HashSet};
use std::panic::{self, AssertUnwindSafe};
use std::rc::Rc;

use cicada::verif as v;
use nix::errno::Errno;
use nix::sys::signal::Signal;
use nix::sys::wait::WaitStatus;
use nix::unistd::Pid;

#[derive(Clone, Copy, PartialEq, Eq, Debug, Hash, PartialOrd, Ord)]
enum KState {
    Run,
    Stop,
    Term(i32), // status as the shell will report it: code or 128+sig
}

#[derive(Clone, Copy, PartialEq, Eq, Debug, Hash, PartialOrd, Ord)]
enum Notif {
    Stop,
    Cont,
    Exit(i32),
    Kill(i32),
}

#[derive(Clone, Debug, PartialEq, Eq, Hash, PartialOrd, Ord)]
struct Proc {
    pid: i32,
    gid: i32,
    state: KState,
    pending: Option<Notif>,
    reaped: bool,          // termination consumed by a wait
    last_seen: u8,         // 0 none, 1 stop, 2 cont  (last stop/cont notification consumed)
}

#[derive(Default, Clone, Debug)]
struct World {
    procs: Vec<Proc>,
    /// choices made so far / to make
    path: Vec<usize>,
    pos: usize,
    /// number of alternatives seen at each choice point of this run
    widths: Vec<usize>,
    events_left: usize,
    consumed_log: Vec<(i32, Notif, bool)>, // (pid, notif, consumed inside a foreground wait)
    in_fg_wait: Option<Vec<i32>>,
    blocked_with_all_done: bool,
    trace: Vec<String>,
    /// set while code runs that must not be unwound through (the extern "C" SIGCHLD handler)
    no_unwind: bool,
    unwind_later: bool,
}

struct NeedChoice;

impl World {
    fn choose(&mut self, n: usize) -> usize {
        assert!(n > 0);
        if self.pos < self.path.len() {
            let c = self.path[self.pos];
            self.pos += 1;
            self.widths.push(n);
            return c.min(n - 1);
        }
        // out of script: record the width and unwind
        self.widths.push(n);
        if self.no_unwind {
            // cannot unwind from here: take the first alternative and stop right after the call returns
            self.unwind_later = true;
            self.pos += 1;
            return 0;
        }
        panic::panic_any(NeedChoice);
    }

    fn proc_mut(&mut self, pid: i32) -> &mut Proc {
        self.procs.iter_mut().find(|p| p.pid == pid).unwrap()
    }

    fn legal_events(&self) -> Vec<(i32, Notif)> {
        let mut out = Vec::new();
        if self.events_left == 0 {
            return out;
        }
        for p in &self.procs {
            match p.state {
                KState::Run => {
                    out.push((p.pid, Notif::Stop));
                    out.push((p.pid, Notif::Exit(0)));
                    out.push((p.pid, Notif::Exit(3)));
                    out.push((p.pid, Notif::Kill(9)));
                }
                KState::Stop => {
                    out.push((p.pid, Notif::Cont));
                    out.push((p.pid, Notif::Kill(9)));
                }
                KState::Term(_) => {}
            }
        }
        out
    }

    fn apply_event(&mut self, pid: i32, n: Notif) {
        self.events_left -= 1;
        self.trace.push(format!("event {} {:?}", pid, n));
        let p = self.proc_mut(pid);
        match n {
            Notif::Stop => {
                p.state = KState::Stop;
                p.pending = Some(Notif::Stop);
            }
            Notif::Cont => {
                p.state = KState::Run;
                // a stop that nobody waited for is overwritten, as Linux does
                p.pending = Some(Notif::Cont);
            }
            Notif::Exit(c) => {
                p.state = KState::Term(c);
                p.pending = Some(Notif::Exit(c));
            }
            Notif::Kill(s) => {
                p.state = KState::Term(128 + s);
                p.pending = Some(Notif::Kill(s));
            }
        }
    }

    fn waitable(&self) -> Vec<i32> {
        self.procs.iter().filter(|p| !p.reaped && p.pending.is_some()).map(|p| p.pid).collect()
    }

    fn children_left(&self) -> bool {
        self.procs.iter().any(|p| !p.reaped)
    }

    fn consume(&mut self, pid: i32) -> WaitStatus {
        let in_fg = self.in_fg_wait.is_some();
        let p = self.proc_mut(pid);
        let n = p.pending.take().unwrap();
        match n {
            Notif::Stop => p.last_seen = 1,
            Notif::Cont => p.last_seen = 2,
            Notif::Exit(_) | Notif::Kill(_) => p.reaped = true,
        }
        self.consumed_log.push((pid, n, in_fg));
        self.trace.push(format!("deliver {} {:?}{}", pid, n, if in_fg { " (to fg wait)" } else { " (to poll)" }));
        let pidt = Pid::from_raw(pid);
        match n {
            Notif::Stop => WaitStatus::Stopped(pidt, Signal::SIGTSTP),
            Notif::Cont => WaitStatus::Continued(pidt),
            Notif::Exit(c) => WaitStatus::Exited(pidt, c),
            Notif::Kill(s) => WaitStatus::Signaled(pidt, Signal::try_from(s).unwrap(), false),
        }
    }

    /// the injected waitpid(-1, ...)
    fn wait(&mut self, nohang: bool) -> nix::Result<WaitStatus> {
        loop {
            let w = self.waitable();
            if nohang {
                if w.is_empty() {
                    return if self.children_left() { Ok(WaitStatus::StillAlive) } else { Err(Errno::ECHILD) };
                }
                // the poll drains everything; the order is the scheduler's choice
                let k = if w.len() > 1 { self.choose(w.len()) } else { 0 };
                return Ok(self.consume(w[k]));
            }
            // blocking wait
            if !self.children_left() {
                return Err(Errno::ECHILD);
            }
            if let Some(fgp) = &self.in_fg_wait {
                let all_done = fgp.iter().all(|pid| {
                    let p = self.procs.iter().find(|p| p.pid == *pid).unwrap();
                    // really gone, or really stopped with the shell knowing it and nothing newer pending
                    p.reaped || (p.last_seen == 1 && p.state == KState::Stop && p.pending.is_none())
                });
                if all_done {
                    // the shell keeps waiting although every foreground member has exited or is stopped
                    self.blocked_with_all_done = true;
                }
            }
            let ev = self.legal_events();
            let n = w.len() + ev.len();
            if n == 0 {
                // nothing can ever happen: the shell is blocked for good
                panic::panic_any(NeedChoice);
            }
            let k = self.choose(n);
            if k < w.len() {
                return Ok(self.consume(w[k]));
            }
            let (pid, e) = ev[k - w.len()];
            self.apply_event(pid, e);
            // loop: the event is now pending; delivering it (or something else) is the next choice
        }
    }
}

#[derive(Clone, Debug, PartialEq, Eq)]
pub struct Violation {
    pub signature: String,
    pub detail: String,
}

fn dump_table(sh: &v::Shell) -> BTreeMap<i32, (i32, Vec<i32>, String, Vec<i32>)> {
    let mut m = BTreeMap::new();
    for (k, j) in sh.jobs.iter() {
        let mut st: Vec<i32> = j.pids_stopped.iter().copied().collect();
        st.sort();
        m.insert(*k, (j.gid, j.pids.clone(), j.status.clone(), st));
    }
    m
}

struct Run {
    world: Rc<RefCell<World>>,
    sh: v::Shell,
    next_job: usize,
    sets_used: usize,
    cfg: Cfg,
}

#[derive(Clone, Copy)]
pub struct Cfg {
    pub max_jobs: usize,
    pub max_procs: usize,
    pub max_events: usize,
    pub max_launches: usize,
    /// CICADA_ENABLE_SIG_HANDLER=1: child statuses are consumed by the asynchronous SIGCHLD handler (a scheduler
    /// choice of its own) and parked; the prompt-time poll only applies what is parked
    pub handler: bool,
}

const PID_SETS: [[i32; 3]; 4] = [
    [2000000500, 2000000100, 2000000300],
    [2000001200, 2000001900, 2000001100],
    [2000002050, 2000002010, 2000002090],
    [2000003300, 2000003100, 2000003200],
];

impl Run {
    fn live_jobs(&self) -> Vec<i32> {
        let w = self.world.borrow();
        let mut g: Vec<i32> = w.procs.iter().filter(|p| !p.reaped).map(|p| p.gid).collect();
        g.sort();
        g.dedup();
        g
    }

    fn expected_table(&self) -> BTreeMap<i32, (Vec<i32>, String)> {
        // gid -> (members whose termination has not been consumed, status)
        let w = self.world.borrow();
        let mut m: BTreeMap<i32, (Vec<i32>, String)> = BTreeMap::new();
        for p in &w.procs {
            if p.reaped {
                continue;
            }
            m.entry(p.gid).or_insert((Vec::new(), String::new())).0.push(p.pid);
        }
        for (gid, e) in m.iter_mut() {
            let all_stopped = w.procs.iter().filter(|p| p.gid == *gid && !p.reaped).all(|p| p.last_seen == 1);
            e.1 = if all_stopped { "Stopped".to_string() } else { "Running".to_string() };
        }
        m
    }

    fn check_after_poll(&self, after: &str) -> Result<(), Violation> {
        let exp = self.expected_table();
        let got = dump_table(&self.sh);
        let mut got_by_gid: BTreeMap<i32, (Vec<i32>, String)> = BTreeMap::new();
        let mut ids = HashSet::new();
        for (k, (gid, pids, status, _)) in got.iter() {
            if !ids.insert(*k) {
                return Err(self.viol("duplicate-job-id", after));
            }
            if let Some(j) = self.sh.jobs.get(k) {
                if j.id != *k {
                    return Err(self.viol("job-id-differs-from-key", after));
                }
            }
            let mut p = pids.clone();
            p.sort();
            got_by_gid.insert(*gid, (p, status.clone()));
        }
        let mut exp_sorted = BTreeMap::new();
        for (g, (p, s)) in exp.iter() {
            let mut p2 = p.clone();
            p2.sort();
            exp_sorted.insert(*g, (p2, s.clone()));
        }
        if got_by_gid.len() != got.len() {
            return Err(self.viol("two-jobs-with-one-group", after));
        }
        let gk: Vec<i32> = got_by_gid.keys().copied().collect();
        let ek: Vec<i32> = exp_sorted.keys().copied().collect();
        if gk != ek {
            let kind = if gk.len() > ek.len() { "job-listed-with-no-live-process" } else { "live-job-missing-from-table" };
            return Err(self.viol(kind, after));
        }
        for (g, (p, s)) in exp_sorted.iter() {
            let (gp, gs) = &got_by_gid[g];
            if gp != p {
                return Err(self.viol("job-members-differ", after));
            }
            if gs != s {
                return Err(self.viol(&format!("job-state-shown-{}-but-is-{}", gs, s), after));
            }
        }
        let (reap, stop, cont, kill) = v::verif_maps_dump();
        if !reap.is_empty() || !stop.is_empty() || !cont.is_empty() || !kill.is_empty() {
            // parked events of processes the shell still knows must have been applied by the poll
            let known: HashSet<i32> = self.world.borrow().procs.iter().filter(|p| !p.reaped).map(|p| p.pid).collect();
            let stale = reap.iter().map(|x| x.0).chain(stop.iter().copied()).chain(cont.iter().copied()).chain(kill.iter().map(|x| x.0))
                .any(|p| known.contains(&p));
            if stale {
                return Err(self.viol("parked-event-not-applied-by-poll", after));
            }
        }
        Ok(())
    }

    fn viol(&self, what: &str, after: &str) -> Violation {
        let w = self.world.borrow();
        Violation {
            signature: format!("C06:{}:after={}", what, after),
            detail: format!("trace={:?} table={:?} expected={:?}", w.trace, dump_table(&self.sh), self.expected_table()),
        }
    }

    fn poll(&mut self, after: &str) -> Result<(), Violation> {
        self.world.borrow_mut().trace.push("poll".to_string());
        self.world.borrow_mut().no_unwind = true;
        v::try_wait_bg_jobs(&mut self.sh, false, self.cfg.handler);
        if self.cfg.handler {
            // the table is judged at a quiescent point: every signal raised so far has been delivered (the handler has
            // drained the kernel) and the prompt has come round once more.  States in between - an event parked by an
            // earlier handler run and applied before a newer one is delivered - are transient by construction.
            v::handle_sigchld(17);
            v::try_wait_bg_jobs(&mut self.sh, false, true);
        }
        self.world.borrow_mut().no_unwind = false;
        if self.world.borrow().unwind_later {
            panic::panic_any(NeedChoice);
        }
        self.check_after_poll(after)
    }

    fn smallest_free_id(&self) -> i32 {
        let mut i = 1;
        while self.sh.jobs.contains_key(&i) {
            i += 1;
        }
        i
    }

    fn fg_wait(&mut self, gid: i32, pids: &[i32], after: &str) -> Result<(), Violation> {
        self.world.borrow_mut().in_fg_wait = Some(pids.to_vec());
        self.world.borrow_mut().blocked_with_all_done = false;
        let cr = v::wait_fg_job(&mut self.sh, gid, pids);
        let mut w = self.world.borrow_mut();
        w.in_fg_wait = None;
        w.trace.push(format!("fg wait returned status {}", cr.status));
        if w.blocked_with_all_done {
            drop(w);
            return Err(self.viol("foreground-wait-kept-waiting-after-all-members-exited-or-stopped", after));
        }
        // returns exactly when each member has exited or is stopped
        for pid in pids {
            let p = w.procs.iter().find(|p| p.pid == *pid).unwrap();
            if !(p.reaped || p.last_seen == 1) {
                drop(w);
                return Err(self.viol("foreground-wait-returned-while-a-member-is-running", after));
            }
        }
        // status of the last process, if it terminated
        let last = w.procs.iter().find(|p| p.pid == *pids.last().unwrap()).unwrap();
        if let KState::Term(st) = last.state {
            if last.reaped && cr.status != st {
                drop(w);
                return Err(self.viol(&format!("foreground-status-{}-expected-{}", cr.status, st), after));
            }
        }
        Ok(())
    }

    fn launch(&mut self, fg: bool, k: usize) -> Result<(), Violation> {
        // process ids: a fresh set first; once the sets are used up, a set all of whose processes have been
        // reaped is used again (a kernel reuses a pid only after it has been waited for)
        let set = {
            let w = self.world.borrow();
            // (with the handler enabled a termination is consumed asynchronously; a pid comes back only after the shell
            // has also taken the process out of its table - a kernel needs tens of thousands of forks to wrap around)
            let in_table = |p: &i32| self.cfg.handler && self.sh.jobs.values().any(|j| j.pids.contains(p));
            let free = |set: &[i32; 3]| set.iter().all(|p| w.procs.iter().all(|q| q.pid != *p || q.reaped) && !in_table(p));
            // (hostile choice: a pid that has just been given back is the first to be handed out again)
            let used = self.sets_used.min(PID_SETS.len());
            match PID_SETS[..used].iter().find(|s| free(s)) {
                Some(s) => *s,
                None if used < PID_SETS.len() => {
                    self.sets_used += 1;
                    PID_SETS[used]
                }
                None => return Ok(()),           // every set still has an unreaped process: nothing to launch with
            }
        };
        self.next_job += 1;
        let pids: Vec<i32> = set[..k].to_vec();
        let gid = pids[0];
        {
            let mut w = self.world.borrow_mut();
            // the earlier (reaped) holders of these pids are gone for good
            w.procs.retain(|q| !(set.contains(&q.pid) && q.reaped));
            w.trace.push(format!("launch {} {:?}", if fg { "fg" } else { "bg" }, pids));
            for p in &pids {
                w.procs.push(Proc { pid: *p, gid, state: KState::Run, pending: None, reaped: false, last_seen: 0 });
            }
        }
        let want_id = self.smallest_free_id();
        for (i, p) in pids.iter().enumerate() {
            self.sh.insert_job(gid, *p, &format!("cmd{}", i), "Running", !fg);
        }
        match self.sh.get_job_by_gid(gid) {
            Some(j) => {
                if j.id != want_id {
                    return Err(self.viol("new-job-did-not-take-the-smallest-unused-id", "launch"));
                }
            }
            None => return Err(self.viol("launched-job-not-in-table", "launch")),
        }
        if fg {
            self.fg_wait(gid, &pids, "launch-fg")?;
        }
        self.poll(if fg { "launch-fg" } else { "launch-bg" })
    }

    fn builtin_fg(&mut self, gid: i32) -> Result<(), Violation> {
        // as builtins/fg.rs does, minus tcsetpgrp: SIGCONT to the group, mark running, wait
        let pids = match self.sh.get_job_by_gid(gid) {
            Some(j) => j.pids.clone(),
            None => return Ok(()),
        };
        {
            let mut w = self.world.borrow_mut();
            w.trace.push(format!("fg {}", gid));
            let stopped: Vec<i32> = w.procs.iter().filter(|p| p.gid == gid && p.state == KState::Stop).map(|p| p.pid).collect();
            for p in stopped {
                let pr = w.proc_mut(p);
                pr.state = KState::Run;
                pr.pending = Some(Notif::Cont);
                // the shell itself resumed it: it knows the member is running again
                pr.last_seen = 2;
            }
        }
        v::mark_job_as_running(&mut self.sh, gid, false);
        self.fg_wait(gid, &pids, "fg")?;
        self.poll("fg")
    }

    fn builtin_bg(&mut self, gid: i32) -> Result<(), Violation> {
        {
            let mut w = self.world.borrow_mut();
            w.trace.push(format!("bg {}", gid));
            let stopped: Vec<i32> = w.procs.iter().filter(|p| p.gid == gid && p.state == KState::Stop).map(|p| p.pid).collect();
            for p in stopped {
                let pr = w.proc_mut(p);
                pr.state = KState::Run;
                pr.pending = Some(Notif::Cont);
                // the shell itself resumed it: it knows the member is running again
                pr.last_seen = 2;
            }
        }
        v::mark_job_as_running(&mut self.sh, gid, true);
        self.poll("bg")
    }

    /// one top-level step; returns false when the schedule is over
    fn step(&mut self, launches: &mut usize) -> Result<bool, Violation> {
        // alternatives at the prompt
        #[derive(Clone, Copy)]
        enum A {
            Launch(bool, usize),
            Event(i32, Notif),
            Line,
            Handler,
            Fg(i32),
            Bg(i32),
        }
        let mut alts: Vec<A> = Vec::new();
        let jobs = self.live_jobs();
        if jobs.len() < self.cfg.max_jobs && *launches < self.cfg.max_launches {
            for k in 1..=self.cfg.max_procs {
                alts.push(A::Launch(true, k));
                alts.push(A::Launch(false, k));
            }
        }
        for (pid, e) in self.world.borrow().legal_events() {
            alts.push(A::Event(pid, e));
        }
        let parked = {
            let (reap, stop, cont, kill) = v::verif_maps_dump();
            !(reap.is_empty() && stop.is_empty() && cont.is_empty() && kill.is_empty())
        };
        if !self.world.borrow().waitable().is_empty() {
            if self.cfg.handler {
                alts.push(A::Handler);
            } else {
                alts.push(A::Line);
            }
        }
        if self.cfg.handler && parked {
            alts.push(A::Line);
        }
        for g in &jobs {
            if self.sh.get_job_by_gid(*g).is_some() {
                alts.push(A::Fg(*g));
                let stopped = self.world.borrow().procs.iter().any(|p| p.gid == *g && p.state == KState::Stop);
                if stopped {
                    alts.push(A::Bg(*g));
                }
            }
        }
        if alts.is_empty() {
            return Ok(false);
        }
        let k = self.world.borrow_mut().choose(alts.len());
        match alts[k] {
            A::Launch(fg, n) => {
                *launches += 1;
                self.launch(fg, n)?
            }
            A::Event(pid, e) => self.world.borrow_mut().apply_event(pid, e),
            A::Line => self.poll("line")?,
            A::Handler => {
                // the signal handler runs between two commands: it drains the kernel and parks what it finds
                self.world.borrow_mut().trace.push("sigchld handler".to_string());
                self.world.borrow_mut().no_unwind = true;
                v::handle_sigchld(17);
                self.world.borrow_mut().no_unwind = false;
                if self.world.borrow().unwind_later {
                    panic::panic_any(NeedChoice);
                }
            }
            A::Fg(g) => self.builtin_fg(g)?,
            A::Bg(g) => self.builtin_bg(g)?,
        }
        Ok(true)
    }
}

pub struct Outcome {
    pub widths: Vec<usize>,
    pub violation: Option<Violation>,
    pub completed: bool,
    pub state_key: u64,
    pub blocked_in_fg: bool,
    pub trace: Vec<String>,
}

/// execute the schedule described by `path`; stops with NeedChoice when the path is exhausted
pub fn execute(path: &[usize], cfg: Cfg) -> Outcome {
    let world = Rc::new(RefCell::new(World { path: path.to_vec(), events_left: cfg.max_events, ..Default::default() }));
    v::verif_maps_clear();
    let w2 = world.clone();
    v::set_wait_source(Some(Box::new(move |_pid, nohang| w2.borrow_mut().wait(nohang))));
    thread_local! {
        static BASE: v::Shell = v::Shell::new();
    }
    let sh = BASE.with(|b| b.clone());
    let mut run = Run { world: world.clone(), sh, next_job: 0, sets_used: 0, cfg };
    let mut launches = 0usize;
    let res = panic::catch_unwind(AssertUnwindSafe(|| -> Result<bool, Violation> {
        loop {
            if !run.step(&mut launches)? {
                return Ok(true);
            }
        }
    }));
    v::set_wait_source(None);
    let mut out = Outcome { widths: Vec::new(), violation: None, completed: false, state_key: 0, blocked_in_fg: false, trace: Vec::new() };
    // a panic while the RefCell was borrowed leaves it usable again after unwinding
    let w = match world.try_borrow() {
        Ok(w) => w.clone(),
        Err(_) => World::default(),
    };
    out.widths = w.widths.clone();
    out.trace = w.trace.clone();
    out.blocked_in_fg = w.in_fg_wait.is_some();
    match res {
        Ok(Ok(done)) => out.completed = done,
        Ok(Err(vv)) => out.violation = Some(vv),
        Err(payload) => {
            if payload.downcast_ref::<NeedChoice>().is_some() {
                if w.in_fg_wait.is_some() && w.blocked_with_all_done {
                    out.violation = Some(Violation {
                        signature: "C06:foreground-wait-kept-waiting-after-all-members-exited-or-stopped:after=blocked".to_string(),
                        detail: format!("trace={:?}", w.trace),
                    });
                }
            } else {
                let msg = if let Some(s) = payload.downcast_ref::<String>() { s.clone() } else if let Some(s) = payload.downcast_ref::<&str>() { s.to_string() } else { "?".to_string() };
                out.violation = Some(Violation { signature: format!("C06:panic:{}", msg.chars().take(60).collect::<String>()), detail: format!("trace={:?}", w.trace) });
            }
        }
    }
    // state key for pruning: model + table
    use std::collections::hash_map::DefaultHasher;
    use std::hash::{Hash, Hasher};
    let mut h = DefaultHasher::new();
    let mut procs = w.procs.clone();
    procs.sort();
    procs.hash(&mut h);
    w.events_left.hash(&mut h);
    format!("{:?}", dump_table(&run.sh)).hash(&mut h);
    format!("{:?}", v::verif_maps_dump()).hash(&mut h);
    w.in_fg_wait.hash(&mut h);
    launches.hash(&mut h);
    out.state_key = h.finish();
    out
}
