//! In-process harness for the cicada monitors (built with --cfg cicada_verif).
//!   harness c06 dfs  <max_events> <max_jobs> <max_procs> <max_launches> <shard> <nshards> <budget_execs>
//!   harness c06 walk <seed> <nwalks> <max_events> <max_jobs> <max_procs> <max_launches>
//!   harness c06 replay <max_events> <max_jobs> <max_procs> <max_launches> <c0,c1,...>
//!   harness c05 ...   (see c05.rs)
mod c01;
mod c05;
mod c06;
mod c20;

use std::collections::{BTreeMap, HashMap, HashSet};

fn jstr(s: &str) -> String {
    let mut o = String::from("\"");
    for c in s.chars() {
        match c {
            '"' => o.push_str("\\\""),
            '\\' => o.push_str("\\\\"),
            '\n' => o.push_str("\\n"),
            '\r' => o.push_str("\\r"),
            '\t' => o.push_str("\\t"),
            c if (c as u32) < 0x20 => o.push_str(&format!("\\u{:04x}", c as u32)),
            c => o.push(c),
        }
    }
    o.push('"');
    o
}

struct Splitmix(u64);
impl Splitmix {
    fn next(&mut self) -> u64 {
        self.0 = self.0.wrapping_add(0x9E3779B97F4A7C15);
        let mut z = self.0;
        z = (z ^ (z >> 30)).wrapping_mul(0xBF58476D1CE4E5B9);
        z = (z ^ (z >> 27)).wrapping_mul(0x94D049BB133111EB);
        z ^ (z >> 31)
    }
}

fn c06_main(args: &[String]) {
    // silence cicada's own job notices
    unsafe {
        let fd = libc::open(b"/dev/null\0".as_ptr() as *const libc::c_char, libc::O_WRONLY);
        if fd >= 0 {
            libc::dup2(fd, 2);
        }
    }
    std::panic::set_hook(Box::new(|_| {}));
    let mode = args[0].as_str();
    let num = |i: usize| args[i].parse::<usize>().unwrap();
    let mut violations: BTreeMap<String, (usize, String, Vec<usize>)> = BTreeMap::new();
    let mut execs: u64 = 0;
    let mut states: HashSet<u64> = HashSet::new();
    let mut maxdepth = 0usize;
    let mut completed: u64 = 0;
    let mut blocked_fg: u64 = 0;
    let mut shapes: HashSet<String> = HashSet::new();
    let mut sample: Vec<String> = Vec::new();
    let mut exhausted = true;
    if mode == "dfs" {
        let cfg = c06::Cfg { max_events: num(1), max_jobs: num(2), max_procs: num(3), max_launches: num(4), handler: args.len() > 8 && args[8] == "handler" };
        let (shard, nshards, budget) = (num(5), num(6), num(7) as u64);
        // depth-first over choice paths, re-executing from the start; prune on (state key)
        let mut stack: Vec<Vec<usize>> = vec![vec![]];
        let mut top_index = 0usize;
        while let Some(path) = stack.pop() {
            if execs >= budget {
                exhausted = false;
                break;
            }
            let out = c06::execute(&path, cfg);
            execs += 1;
            maxdepth = maxdepth.max(path.len());
            if let Some(v) = out.violation {
                let e = violations.entry(v.signature.clone()).or_insert((0, v.detail.clone(), path.clone()));
                e.0 += 1;
                if path.len() < e.2.len() {
                    e.1 = v.detail.clone();
                    e.2 = path.clone();
                }
                continue;
            }
            if out.completed {
                completed += 1;
                if sample.len() < 3 {
                    sample.push(format!("{:?}", out.trace));
                }
                continue;
            }
            if out.widths.len() <= path.len() {
                // blocked for good inside a wait with nothing left to happen
                if out.blocked_in_fg {
                    blocked_fg += 1;
                }
                continue;
            }
            if !states.insert(out.state_key) {
                continue;
            }
            let shape = format!("{}", out.trace.iter().filter(|t| t.starts_with("launch")).map(|t| t.split('[').nth(1).unwrap_or("").matches(',').count() + 1).map(|n| n.to_string()).collect::<Vec<_>>().join("+"));
            shapes.insert(shape);
            if path.len() >= 48 {
                continue;
            }
            let w = out.widths[path.len()];
            for c in (0..w).rev() {
                if path.len() == 1 {
                    // shard on the second choice
                    top_index += 1;
                    if top_index % nshards != shard {
                        continue;
                    }
                }
                let mut p = path.clone();
                p.push(c);
                stack.push(p);
            }
        }
    } else if mode == "walk" {
        let mut rng = Splitmix(args[1].parse::<u64>().unwrap());
        let nwalks = num(2);
        let cfg = c06::Cfg { max_events: num(3), max_jobs: num(4), max_procs: num(5), max_launches: num(6), handler: args.len() > 7 && args[7] == "handler" };
        for _ in 0..nwalks {
            let mut path: Vec<usize> = Vec::new();
            loop {
                let out = c06::execute(&path, cfg);
                execs += 1;
                maxdepth = maxdepth.max(path.len());
                states.insert(out.state_key);
                if let Some(v) = out.violation {
                    let e = violations.entry(v.signature.clone()).or_insert((0, v.detail.clone(), path.clone()));
                    e.0 += 1;
                    break;
                }
                if out.completed || out.widths.len() <= path.len() || path.len() >= 60 {
                    completed += 1;
                    if sample.len() < 3 {
                        sample.push(format!("{:?}", out.trace));
                    }
                    break;
                }
                let w = out.widths[path.len()];
                path.push((rng.next() % w as u64) as usize);
            }
        }
    } else if mode == "replay" {
        let cfg = c06::Cfg { max_events: num(1), max_jobs: num(2), max_procs: num(3), max_launches: num(4), handler: args.len() > 6 && args[6] == "handler" };
        let path: Vec<usize> = args[5].split(',').filter(|s| !s.is_empty()).map(|s| s.parse().unwrap()).collect();
        let out = c06::execute(&path, cfg);
        execs = 1;
        if let Some(v) = out.violation {
            violations.insert(v.signature.clone(), (1, v.detail, path));
        }
        sample.push(format!("{:?}", out.trace));
    }
    let mut viol = String::from("[");
    for (i, (sig, (n, detail, path))) in violations.iter().enumerate() {
        if i > 0 {
            viol.push(',');
        }
        viol.push_str(&format!("{{\"signature\":{},\"count\":{},\"detail\":{},\"path\":{:?}}}", jstr(sig), n, jstr(&detail.chars().take(1500).collect::<String>()), path));
    }
    viol.push(']');
    let mut shp: Vec<&String> = shapes.iter().collect();
    shp.sort();
    println!(
        "{{\"mode\":{},\"executions\":{},\"states\":{},\"max_depth\":{},\"completed_schedules\":{},\"blocked_in_fg_wait_at_end\":{},\"exhausted\":{},\"shapes\":{:?},\"samples\":[{}],\"violations\":{}}}",
        jstr(mode), execs, states.len(), maxdepth, completed, blocked_fg, exhausted, shp,
        sample.iter().map(|s| jstr(s)).collect::<Vec<_>>().join(","), viol
    );
    let _ = HashMap::<u8, u8>::new();
}

fn main() {
    let args: Vec<String> = std::env::args().collect();
    if args.len() < 2 {
        eprintln!("usage: harness c05|c06|c20 ...");
        std::process::exit(2);
    }
    match args[1].as_str() {
        "c06" => c06_main(&args[2..]),
        "c01" => c01::main(&args[2..]),
        "c05" => c05::main(&args[2..]),
        "c20" => c20::main(&args[2..]),
        "c20cand" => c20::cand_main(&args[2..]),
        _ => std::process::exit(2),
    }
}
