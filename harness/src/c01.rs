//! C01 in-process explorer: every argument text up to a length bound over the metacharacter
//! alphabet, in each quoting style, alone and before each follower, through the real
//! `run_command_line` with the exec interceptor installed (nothing is forked): the monitor sees the
//! command lines cicada is about to execute (argv, redirections, background flag, prefixed
//! environment).  A text whose plan differs from "one command, argv = [vp_argv, text]" is shrunk
//! in-process and reported; the python side re-runs every reported minimal line through the real
//! binary, and only that observation decides.
use std::cell::RefCell;
use std::collections::BTreeMap;
use std::panic::{self, AssertUnwindSafe};
use std::rc::Rc;

use cicada::verif as v;

const META: [char; 25] = ['|', '&', ';', '<', '>', '(', ')', '$', '`', '\\', '"', '\'', '*', '?', '[', ']', '{', '}', ',', '~', '#', '!', '=', '%', '^'];
const FOLLOWERS: [&str; 7] = ["", " | vp_b x", " ; vp_b x", " && vp_b x", " || vp_b x", " < a", " <<< hs"];

fn jstr(s: &str) -> String {
    let mut o = String::from("\"");
    for c in s.chars() {
        match c {
            '"' => o.push_str("\\\""),
            '\\' => o.push_str("\\\\"),
            '\n' => o.push_str("\\n"),
            '\t' => o.push_str("\\t"),
            c if (c as u32) < 0x20 => o.push_str(&format!("\\u{:04x}", c as u32)),
            c => o.push(c),
        }
    }
    o.push('"');
    o
}

#[derive(Debug, Clone, PartialEq)]
struct Planned {
    cmds: Vec<Vec<String>>,
    redirects_to: usize,
    redirect_from: Vec<Option<String>>,
    background: bool,
    envs: usize,
    capture: bool,
}

fn style_ok(t: &str, style: u8) -> bool {
    match style {
        0 => !t.contains('\''),
        1 => !t.chars().any(|c| c == '$' || c == '`' || c == '\\' || c == '"'),
        _ => !t.is_empty(),
    }
}

fn write_arg(t: &str, style: u8) -> String {
    match style {
        0 => format!("'{}'", t),
        1 => format!("\"{}\"", t),
        _ => {
            let mut o = String::new();
            for c in t.chars() {
                if !c.is_alphanumeric() {
                    o.push('\\');
                }
                o.push(c);
            }
            o
        }
    }
}

struct Ctx {
    sh: v::Shell,
    plans: Rc<RefCell<Vec<Planned>>>,
    dir_entries: usize,
}

fn count_entries() -> usize {
    std::fs::read_dir(".").map(|d| d.count()).unwrap_or(0)
}

/// None when the plan is what the statement prescribes, else a symptom word
fn symptom(ctx: &mut Ctx, t: &str, style: u8, fol: usize) -> Option<String> {
    let line = format!("vp_argv {}{}", write_arg(t, style), FOLLOWERS[fol]);
    ctx.plans.borrow_mut().clear();
    v::tick_reset();
    let sh = &mut ctx.sh;
    let r = panic::catch_unwind(AssertUnwindSafe(|| {
        let _ = v::run_command_line(sh, &line, false, false);
    }));
    if let Err(p) = r {
        let msg = if let Some(s) = p.downcast_ref::<String>() { s.clone() } else if let Some(s) = p.downcast_ref::<&str>() { s.to_string() } else { "?".to_string() };
        return Some(if msg.contains("step budget") { "hang".to_string() } else { "shell-crash".to_string() });
    }
    if count_entries() != ctx.dir_entries {
        return Some("file-created-or-changed".to_string());
    }
    let plans = ctx.plans.borrow();
    let main = vec!["vp_argv".to_string(), t.to_string()];
    let foll = vec!["vp_b".to_string(), "x".to_string()];
    let want: Vec<Vec<Vec<String>>> = match fol {
        0 | 5 | 6 => vec![vec![main.clone()]],
        1 => vec![vec![main.clone(), foll.clone()]],
        2 | 3 => vec![vec![main.clone()], vec![foll.clone()]],
        _ => vec![vec![main.clone()]],
    };
    if plans.iter().any(|p| p.capture) {
        return Some("substitution-ran".to_string());
    }
    if plans.is_empty() {
        return Some("program-not-run".to_string());
    }
    let first = &plans[0];
    if first.cmds.is_empty() || first.cmds[0].first().map(|s| s.as_str()) != Some("vp_argv") {
        return Some("program-not-run".to_string());
    }
    let got = &first.cmds[0];
    if got.len() < 2 {
        return Some("argument-dropped".to_string());
    }
    if got.len() > 2 {
        return Some("argument-split-or-added".to_string());
    }
    if got[1] != t {
        return Some("argument-changed".to_string());
    }
    if first.background {
        return Some("backgrounded".to_string());
    }
    if first.redirects_to != 0 {
        return Some("output-redirection-planned".to_string());
    }
    if first.envs != 0 {
        return Some("prefixed-environment-planned".to_string());
    }
    let from = first.redirect_from[0].clone();
    match fol {
        5 => {
            if from.as_deref() != Some("a") {
                return Some("genuine-input-redirection-not-applied".to_string());
            }
        }
        6 => {
            if from.as_deref() != Some("hs") {
                return Some("genuine-input-redirection-not-applied".to_string());
            }
        }
        _ => {
            if from.is_some() {
                return Some("stdin-redirected".to_string());
            }
        }
    }
    let got_all: Vec<Vec<Vec<String>>> = plans.iter().map(|p| p.cmds.clone()).collect();
    if got_all != want {
        return Some(if got_all.len() != want.len() { "line-split-differently".to_string() } else { "follower-changed".to_string() });
    }
    for p in plans.iter().skip(1) {
        if p.background || p.redirects_to != 0 || p.envs != 0 || p.redirect_from.iter().any(|x| x.is_some()) {
            return Some("follower-changed".to_string());
        }
    }
    None
}

fn shrink(ctx: &mut Ctx, t: &str, style: u8, fol: usize, sy: &str, preserve: bool) -> (String, usize, String) {
    let (mut mt, mut mf, mut ms) = (t.to_string(), fol, sy.to_string());
    if mf != 0 {
        if let Some(s2) = symptom(ctx, &mt, style, 0) {
            if !preserve || s2 == ms {
                mf = 0;
                ms = s2;
            }
        }
    }
    let mut changed = true;
    while changed && !mt.is_empty() {
        changed = false;
        let cs: Vec<char> = mt.chars().collect();
        for i in 0..cs.len() {
            let t2: String = cs.iter().enumerate().filter(|(j, _)| *j != i).map(|(_, c)| *c).collect();
            if !style_ok(&t2, style) {
                continue;
            }
            if let Some(s2) = symptom(ctx, &t2, style, mf) {
                if preserve && s2 != ms {
                    continue;
                }
                mt = t2;
                ms = s2;
                changed = true;
                break;
            }
        }
    }
    (mt, mf, ms)
}

fn text_of(mut k: u64, len: usize, alpha: &[char]) -> String {
    let mut s = String::new();
    for _ in 0..len {
        s.push(alpha[(k % alpha.len() as u64) as usize]);
        k /= alpha.len() as u64;
    }
    s
}

pub fn main(args: &[String]) {
    let maxlen: usize = args[0].parse().unwrap();
    let shard: u64 = args[1].parse().unwrap();
    let nshards: u64 = args[2].parse().unwrap();
    let dir = &args[3];
    let all_followers_upto: usize = args[4].parse().unwrap();
    unsafe {
        let fd = libc::open(b"/dev/null\0".as_ptr() as *const libc::c_char, libc::O_WRONLY);
        if fd >= 0 {
            libc::dup2(1, 101);
            libc::dup2(fd, 2);
            libc::dup2(fd, 1);
        }
        let lim = libc::rlimit { rlim_cur: 8 << 30, rlim_max: 8 << 30 };
        libc::setrlimit(libc::RLIMIT_AS, &lim);
    }
    panic::set_hook(Box::new(|_| {}));
    std::env::set_current_dir(dir).unwrap();
    std::env::set_var("HOME", "/vp-sentinel-home");
    std::env::set_var("PATH", "/nonexistent-bin");
    for k in ["a", "b", "x", "y"] {
        std::env::remove_var(k);
    }
    v::set_step_budget(20000);
    let plans: Rc<RefCell<Vec<Planned>>> = Rc::new(RefCell::new(Vec::new()));
    let p2 = plans.clone();
    v::set_exec_hook(Some(Box::new(move |cl, capture| {
        p2.borrow_mut().push(Planned {
            cmds: cl.commands.iter().map(|c| c.tokens.iter().map(|t| t.1.clone()).collect()).collect(),
            redirects_to: cl.commands.iter().map(|c| c.redirects_to.len()).sum(),
            redirect_from: cl.commands.iter().map(|c| c.redirect_from.as_ref().map(|t| t.1.clone())).collect(),
            background: cl.background,
            envs: cl.envs.len(),
            capture,
        });
        Some(v::CommandResult::new())
    })));
    let mut ctx = Ctx { sh: v::Shell::new(), plans, dir_entries: count_entries() };
    let mut alpha: Vec<char> = META.to_vec();
    alpha.push(' ');
    alpha.push('a');
    let (mut texts, mut lines, mut failing) = (0u64, 0u64, 0u64);
    // minimal failing (style, text, follower) -> (count, symptom, example of an unshrunk text)
    let mut minimal: BTreeMap<(u8, String, usize), (u64, String, String)> = BTreeMap::new();
    let mut samples: Vec<String> = Vec::new();
    let mut idx = 0u64;
    for len in 0..=maxlen {
        let n = (alpha.len() as u64).pow(len as u32);
        for k in 0..n {
            idx += 1;
            if idx % nshards != shard {
                continue;
            }
            let t = text_of(k, len, &alpha);
            texts += 1;
            for style in 0..3u8 {
                if !style_ok(&t, style) {
                    continue;
                }
                let fols: Vec<usize> = if len <= all_followers_upto {
                    (0..FOLLOWERS.len()).collect()
                } else {
                    vec![0, 1 + ((k / 7 + style as u64) % 6) as usize]
                };
                for fol in fols {
                    lines += 1;
                    if samples.len() < 5 && len == maxlen && k % 9973 == 11 {
                        samples.push(format!("vp_argv {}{}", write_arg(&t, style), FOLLOWERS[fol]));
                    }
                    let sy = match symptom(&mut ctx, &t, style, fol) {
                        None => continue,
                        Some(s) => s,
                    };
                    failing += 1;
                    // shrink: first try without the follower, then drop characters while it still fails; and once more
                    // while it still fails *in the same way* (a free shrink may walk to a smaller text that fails for
                    // another reason)
                    let (pt, pf, ps) = shrink(&mut ctx, &t, style, fol, &sy, true);
                    let (mt, mf, ms) = shrink(&mut ctx, &t, style, fol, &sy, false);
                    if (pt.as_str(), pf) != (mt.as_str(), mf) {
                        let e = minimal.entry((style, pt, pf)).or_insert((0, ps, t.clone()));
                        e.0 += 1;
                    }
                    let e = minimal.entry((style, mt, mf)).or_insert((0, ms, t.clone()));
                    e.0 += 1;
                }
            }
        }
    }
    let mut out = String::from("[");
    for (i, ((style, t, fol), (n, sy, ex))) in minimal.iter().enumerate() {
        if i > 0 {
            out.push(',');
        }
        out.push_str(&format!(
            "{{\"style\":{},\"text\":{},\"follower\":{},\"symptom\":{},\"count\":{},\"example\":{}}}",
            jstr(["sq", "dq", "esc"][*style as usize]), jstr(t), jstr(FOLLOWERS[*fol]), jstr(sy), n, jstr(ex)
        ));
    }
    out.push(']');
    let msg = format!(
        "{{\"maxlen\":{},\"texts\":{},\"lines\":{},\"failing_lines\":{},\"samples\":[{}],\"minimal\":{}}}\n",
        maxlen, texts, lines, failing, samples.iter().map(|s| jstr(s)).collect::<Vec<_>>().join(","), out
    );
    unsafe {
        libc::write(101, msg.as_ptr() as *const libc::c_void, msg.len());
    }
}
