/* vp.c - observer programs for the cicada runtime monitors.
 *
 * One static multi-call binary, dispatched on basename(argv[0]).  Every
 * invocation appends whole records (one write() each) to the O_APPEND file
 * $VP_LOG, so the file order is a total order consistent with happens-before
 * between processes.  All byte strings are hex encoded.
 *
 * Build: gcc -O1 -static -o vp vp.c   (then symlink the names below to it)
 */
#define _GNU_SOURCE
#include <ctype.h>
#include <dirent.h>
#include <errno.h>
#include <fcntl.h>
#include <signal.h>
#include <stdarg.h>
#include <stdint.h>
#include <stdio.h>
#include <stdlib.h>
#include <string.h>
#include <sys/file.h>
#include <sys/stat.h>
#include <sys/types.h>
#include <time.h>
#include <unistd.h>

extern char **environ;

static char *buf;
static size_t blen, bcap;

static void bput(const char *s, size_t n)
{
    if (blen + n + 1 > bcap) {
        bcap = (blen + n + 1) * 2 + 4096;
        buf = realloc(buf, bcap);
        if (!buf) _exit(97);
    }
    memcpy(buf + blen, s, n);
    blen += n;
    buf[blen] = 0;
}
static void bputs(const char *s) { bput(s, strlen(s)); }
static void bprintf(const char *fmt, ...)
{
    char tmp[512];
    va_list ap;
    va_start(ap, fmt);
    int n = vsnprintf(tmp, sizeof tmp, fmt, ap);
    va_end(ap);
    if (n > 0) bput(tmp, (size_t)n < sizeof tmp ? (size_t)n : sizeof tmp - 1);
}
static void bhex(const unsigned char *p, size_t n)
{
    static const char H[] = "0123456789abcdef";
    bputs("\"");
    for (size_t i = 0; i < n; i++) {
        char c[2] = { H[p[i] >> 4], H[p[i] & 15] };
        bput(c, 2);
    }
    bputs("\"");
}
static void bhexs(const char *s) { bhex((const unsigned char *)s, strlen(s)); }

static long long now_ns(void)
{
    struct timespec ts;
    clock_gettime(CLOCK_MONOTONIC, &ts);
    return (long long)ts.tv_sec * 1000000000LL + ts.tv_nsec;
}

static void msleep(long ms)
{
    struct timespec ts = { ms / 1000, (ms % 1000) * 1000000L };
    while (nanosleep(&ts, &ts) == -1 && errno == EINTR) {}
}

/* open fds found before anything else is opened */
static int open_fds[1024], n_open;
static struct stat st012[3];
static int st012_ok[3];
static unsigned long long sig_ign, sig_blk;

static void scan_fds(void)
{
    for (int fd = 0; fd < 1024; fd++)
        if (fcntl(fd, F_GETFD) != -1) open_fds[n_open++] = fd;
    for (int i = 0; i < 3; i++) st012_ok[i] = fstat(i, &st012[i]) == 0;
}

static const char *ftype(mode_t m)
{
    if (S_ISREG(m)) return "reg";
    if (S_ISFIFO(m)) return "fifo";
    if (S_ISCHR(m)) return "chr";
    if (S_ISDIR(m)) return "dir";
    if (S_ISSOCK(m)) return "sock";
    return "other";
}

static void flush_record(void)
{
    const char *lp = getenv("VP_LOG");
    if (!lp) { blen = 0; return; }
    bputs("\n");
    int fd = open(lp, O_WRONLY | O_APPEND | O_CREAT | O_CLOEXEC, 0644);
    if (fd >= 0) {
        ssize_t w = write(fd, buf, blen);
        (void)w;
        close(fd);
    }
    blen = 0;
}

static void common_fields(const char *kind, const char *name, int argc, char **argv)
{
    bprintf("{\"kind\":\"%s\",\"name\":\"%s\",\"pid\":%d,\"ppid\":%d,\"pgid\":%d,\"sid\":%d,\"t\":%lld",
            kind, name, (int)getpid(), (int)getppid(), (int)getpgrp(), (int)getsid(0), now_ns());
    bputs(",\"argv\":[");
    for (int i = 0; i < argc; i++) {
        if (i) bputs(",");
        bhexs(argv[i]);
    }
    bputs("]");
}

static void start_record(const char *name, int argc, char **argv)
{
    common_fields("start", name, argc, argv);
    bputs(",\"open_fds\":[");
    for (int i = 0; i < n_open; i++) bprintf(i ? ",%d" : "%d", open_fds[i]);
    bputs("],\"std\":[");
    for (int i = 0; i < 3; i++) {
        if (i) bputs(",");
        if (st012_ok[i])
            bprintf("[%llu,%llu,\"%s\"]", (unsigned long long)st012[i].st_dev,
                    (unsigned long long)st012[i].st_ino, ftype(st012[i].st_mode));
        else
            bputs("null");
    }
    bputs("]");
    bprintf(",\"sig_ign\":%llu,\"sig_blk\":%llu", sig_ign, sig_blk);
    char cwd[4096];
    if (getcwd(cwd, sizeof cwd)) { bputs(",\"cwd\":"); bhexs(cwd); }
    const char *w = getenv("VP_WATCH");
    bputs(",\"env\":{");
    if (w) {
        char *dup = strdup(w), *save = NULL;
        int first = 1;
        for (char *n = strtok_r(dup, ",", &save); n; n = strtok_r(NULL, ",", &save)) {
            /* count occurrences too: a name defined twice in environ is worth seeing */
            size_t nl = strlen(n);
            int cnt = 0;
            const char *val = NULL;
            for (char **e = environ; *e; e++)
                if (!strncmp(*e, n, nl) && (*e)[nl] == '=') { if (!cnt) val = *e + nl + 1; cnt++; }
            if (!first) bputs(",");
            first = 0;
            bprintf("\"%s\":", n);
            if (val) { bputs("["); bhexs(val); bprintf(",%d]", cnt); } else bputs("null");
        }
        free(dup);
    }
    bputs("}");
    int tp = -1;
    if (isatty(0)) tp = (int)tcgetpgrp(0);
    bprintf(",\"tpgid\":%d", tp);
}

/* ---------------------------------------------------------------- helpers */

static char *vpdir_path(const char *prefix, const char *id)
{
    const char *d = getenv("VP_DIR");
    static char p[4096];
    snprintf(p, sizeof p, "%s/%s.%s", d ? d : ".", prefix, id);
    return p;
}

static int read_int_file(const char *path, int dflt)
{
    FILE *f = fopen(path, "r");
    if (!f) return dflt;
    int v = dflt;
    if (fscanf(f, "%d", &v) != 1) v = dflt;
    fclose(f);
    return v;
}

static int do_argv(const char *name, int argc, char **argv)
{
    const char *d = getenv("VP_DELAY_MS");
    if (d) msleep(atol(d));
    start_record(name, argc, argv);
    bputs("}");
    flush_record();
    return 0;
}

static int do_status(const char *name, int argc, char **argv)
{
    int code = argc > 1 ? atoi(argv[1]) : 0;
    /* `vp_status sigN marker`: log, then die of signal N */
    int sg = (argc > 1 && !strncmp(argv[1], "sig", 3)) ? atoi(argv[1] + 3) : 0;
    start_record(name, argc, argv);
    bprintf(",\"code\":%d}", sg ? 128 + sg : code);
    flush_record();
    if (sg > 0 && sg < 32) {
        sigset_t one;
        signal(sg, SIG_DFL);
        sigemptyset(&one);
        sigaddset(&one, sg);
        sigprocmask(SIG_UNBLOCK, &one, NULL);
        raise(sg);
    }
    return code;
}

static int do_cond(const char *name, int argc, char **argv)
{
    const char *id = argc > 1 ? argv[1] : "0";
    /* cursor under flock */
    char cur[4096];
    snprintf(cur, sizeof cur, "%s", vpdir_path("cur", id));
    int fd = open(cur, O_RDWR | O_CREAT | O_CLOEXEC, 0644);
    int idx = 0;
    if (fd >= 0) {
        flock(fd, LOCK_EX);
        char b[32] = { 0 };
        ssize_t r = pread(fd, b, sizeof b - 1, 0);
        if (r > 0) idx = atoi(b);
        int n = snprintf(b, sizeof b, "%d\n", idx + 1);
        if (pwrite(fd, b, n, 0) < 0) {}
        flock(fd, LOCK_UN);
        close(fd);
    }
    int code = 1, exhausted = 1;
    FILE *f = fopen(vpdir_path("cond", id), "r");
    if (f) {
        int v, i = 0;
        while (fscanf(f, "%d", &v) == 1) {
            if (i == idx) { code = v; exhausted = 0; break; }
            i++;
        }
        fclose(f);
    }
    start_record(name, argc, argv);
    bprintf(",\"idx\":%d,\"code\":%d,\"exhausted\":%d}", idx, code, exhausted);
    flush_record();
    return code;
}

static void copy_file_to_fd(const char *path, int fd)
{
    int in = open(path, O_RDONLY | O_CLOEXEC);
    if (in < 0) return;
    char b[65536];
    ssize_t r;
    while ((r = read(in, b, sizeof b)) > 0) {
        ssize_t off = 0;
        while (off < r) {
            ssize_t w = write(fd, b + off, r - off);
            if (w <= 0) { close(in); return; }
            off += w;
        }
    }
    close(in);
}

static int do_out(const char *name, int argc, char **argv)
{
    const char *id = argc > 1 ? argv[1] : "0";
    start_record(name, argc, argv);
    bputs("}");
    flush_record();
    char p[4096];
    snprintf(p, sizeof p, "%s", vpdir_path("out", id));
    copy_file_to_fd(p, 1);
    snprintf(p, sizeof p, "%s", vpdir_path("late", id));
    if (access(p, F_OK) == 0) {
        /* a program that is done with its output, closes it, and complains a little later */
        close(1);
        usleep(150000);
    }
    snprintf(p, sizeof p, "%s", vpdir_path("err", id));
    copy_file_to_fd(p, 2);
    snprintf(p, sizeof p, "%s", vpdir_path("rc", id));
    return read_int_file(p, 0);
}

static int do_io(const char *name, int argc, char **argv)
{
    const char *id = argc > 1 ? argv[1] : "0";
    char line[600];
    signal(SIGPIPE, SIG_IGN);
    start_record(name, argc, argv);
    /* read stdin first (unless a tty), then the two writes */
    static unsigned char in[1 << 20];   /* (a here-string may be longer than a pipe buffer) */
    size_t n = 0;
    int in_err = 0, is_tty = isatty(0);
    if (!is_tty && !getenv("VP_IO_NOREAD")) {
        for (;;) {
            ssize_t r = read(0, in + n, sizeof in - n);
            if (r < 0) { in_err = errno; break; }
            if (r == 0) break;
            n += (size_t)r;
            if (n == sizeof in) break;
        }
    }
    int l = snprintf(line, sizeof line, "O:%s\n", id);
    ssize_t w1 = write(1, line, l);
    int e1 = w1 < 0 ? errno : 0;
    l = snprintf(line, sizeof line, "E:%s\n", id);
    ssize_t w2 = write(2, line, l);
    int e2 = w2 < 0 ? errno : 0;
    bprintf(",\"stdin_tty\":%d,\"stdin_err\":%d,\"w1\":%d,\"w2\":%d,\"stdin\":", is_tty, in_err, e1, e2);
    bhex(in, n);
    bputs("}");
    flush_record();
    int code = 0;
    for (int i = 2; i + 1 < argc; i++)
        if (!strcmp(argv[i], "--exit")) code = atoi(argv[i + 1]);
    return code;
}

static uint64_t fnv(uint64_t h, const unsigned char *p, size_t n)
{
    for (size_t i = 0; i < n; i++) { h ^= p[i]; h *= 1099511628211ULL; }
    return h;
}

static uint64_t xs;
static unsigned char xnext(void)
{
    xs ^= xs << 13; xs ^= xs >> 7; xs ^= xs << 17;
    return (unsigned char)(xs >> 24);
}

static int do_st(const char *name, int argc, char **argv)
{
    signal(SIGPIPE, SIG_IGN);
    start_record(name, argc, argv);
    bputs("}");
    flush_record();
    const char *role = argc > 1 ? argv[1] : "snk";
    long linger = -1;
    int code = 0, killsig = 0;
    long nbytes = 0;
    uint64_t seed = 1;
    int key = 0;
    int ai = 2;
    if (!strcmp(role, "src")) {
        if (argc > ai) nbytes = atol(argv[ai++]);
        if (argc > ai && argv[ai][0] != '-') seed = strtoull(argv[ai++], 0, 10);
    } else if (!strcmp(role, "flt")) {
        if (argc > ai && argv[ai][0] != '-') key = atoi(argv[ai++]);
    }
    for (; ai < argc; ai++) {
        if (!strcmp(argv[ai], "--linger") && ai + 1 < argc) linger = atol(argv[++ai]);
        else if (!strcmp(argv[ai], "--exit") && ai + 1 < argc) code = atoi(argv[++ai]);
        else if (!strcmp(argv[ai], "--kill") && ai + 1 < argc) killsig = atoi(argv[++ai]);
    }
    uint64_t hin = 14695981039346656037ULL, hout = 14695981039346656037ULL;
    long long nin = 0, nout = 0;
    int epipe = 0, rerr = 0;
    static unsigned char b[65536];
    if (!strcmp(role, "src")) {
        xs = seed * 2654435761ULL + 88172645463325252ULL;
        long left = nbytes;
        while (left > 0) {
            size_t chunk = left > (long)sizeof b ? sizeof b : (size_t)left;
            for (size_t i = 0; i < chunk; i++) b[i] = xnext();
            size_t off = 0;
            while (off < chunk) {
                ssize_t w = write(1, b + off, chunk - off);
                if (w < 0) { if (errno == EINTR) continue; epipe = errno; break; }
                hout = fnv(hout, b + off, (size_t)w);
                off += (size_t)w; nout += w;
            }
            if (epipe) break;
            left -= (long)chunk;
        }
    } else if (!strcmp(role, "flt") || !strcmp(role, "snk")) {
        int isflt = role[0] == 'f';
        for (;;) {
            ssize_t r = read(0, b, sizeof b);
            if (r < 0) { if (errno == EINTR) continue; rerr = errno; break; }
            if (r == 0) break;
            hin = fnv(hin, b, (size_t)r); nin += r;
            if (isflt) {
                for (ssize_t i = 0; i < r; i++) b[i] ^= (unsigned char)key;
                ssize_t off = 0;
                while (off < r) {
                    ssize_t w = write(1, b + off, (size_t)(r - off));
                    if (w < 0) { if (errno == EINTR) continue; epipe = errno; break; }
                    hout = fnv(hout, b + off, (size_t)w);
                    off += w; nout += w;
                }
                if (epipe) break;
            }
        }
    } /* noread: nothing */
    if (linger >= 0) {
        close(0); close(1); close(2);
        msleep(linger);
    }
    common_fields("end", name, argc, argv);
    bprintf(",\"nin\":%lld,\"nout\":%lld,\"hin\":\"%016llx\",\"hout\":\"%016llx\",\"epipe\":%d,\"rerr\":%d,\"code\":%d,\"killsig\":%d}",
            nin, nout, (unsigned long long)hin, (unsigned long long)hout, epipe, rerr, code, killsig);
    flush_record();
    if (killsig) {
        signal(killsig, SIG_DFL);
        sigset_t ss; sigemptyset(&ss); sigaddset(&ss, killsig);
        sigprocmask(SIG_UNBLOCK, &ss, NULL);
        kill(getpid(), killsig);
        msleep(1000);
    }
    return code;
}

static int do_snap(const char *name, int argc, char **argv)
{
    start_record(name, argc, argv);
    int pp = (int)getppid();
    char d[64];
    snprintf(d, sizeof d, "/proc/%d/fd", pp);
    bputs(",\"pfds\":[");
    DIR *dir = opendir(d);
    int first = 1;
    if (dir) {
        int dfd = dirfd(dir);
        struct dirent *e;
        while ((e = readdir(dir))) {
            if (e->d_name[0] == '.') continue;
            char p[128], l[4096];
            snprintf(p, sizeof p, "%s/%s", d, e->d_name);
            ssize_t n = readlink(p, l, sizeof l - 1);
            if (n < 0) continue;
            l[n] = 0;
            (void)dfd;
            if (!first) bputs(",");
            first = 0;
            bprintf("[%d,", atoi(e->d_name));
            bhexs(l);
            bputs("]");
        }
        closedir(dir);
    }
    bputs("],\"sib\":[");
    /* other children of our parent */
    dir = opendir("/proc");
    first = 1;
    if (dir) {
        struct dirent *e;
        while ((e = readdir(dir))) {
            if (!isdigit((unsigned char)e->d_name[0])) continue;
            int pid = atoi(e->d_name);
            if (pid == (int)getpid()) continue;
            char p[64], s[1024];
            snprintf(p, sizeof p, "/proc/%d/stat", pid);
            int fd = open(p, O_RDONLY | O_CLOEXEC);
            if (fd < 0) continue;
            ssize_t n = read(fd, s, sizeof s - 1);
            close(fd);
            if (n <= 0) continue;
            s[n] = 0;
            char *rp = strrchr(s, ')');
            if (!rp) continue;
            char state; int ppid;
            if (sscanf(rp + 1, " %c %d", &state, &ppid) != 2) continue;
            if (ppid != pp) continue;
            char *lp = strchr(s, '(');
            *rp = 0;
            if (!first) bputs(",");
            first = 0;
            bprintf("[%d,\"%c\",", pid, state);
            bhexs(lp ? lp + 1 : "");
            bputs("]");
        }
        closedir(dir);
    }
    bputs("]}");
    flush_record();
    return 0;
}

static volatile sig_atomic_t got_sig;
static void on_sig(int s) { got_sig = s; }

static int do_job(const char *name, int argc, char **argv)
{
    const char *tag = argc > 1 ? argv[1] : "0";
    double secs = argc > 2 ? atof(argv[2]) : 1.0;
    int code = argc > 3 ? atoi(argv[3]) : 0;
    start_record(name, argc, argv);
    bputs("}");
    flush_record();
    (void)on_sig;
    long long deadline = now_ns() + (long long)(secs * 1e9);
    char stop[4096];
    snprintf(stop, sizeof stop, "%s", vpdir_path("stop", tag));
    int stopped_by_file = 0;
    while (now_ns() < deadline) {
        if (access(stop, F_OK) == 0) { stopped_by_file = 1; break; }
        msleep(20);
    }
    common_fields("end", name, argc, argv);
    bprintf(",\"by_file\":%d,\"code\":%d}", stopped_by_file, code);
    flush_record();
    return code;
}

/* signal dispositions and mask inherited from the shell, read before this program changes any */
static unsigned long long sig_ign, sig_blk;
static void scan_signals(void)
{
    for (int sg = 1; sg < 32; sg++) {
        struct sigaction sa;
        if (sigaction(sg, NULL, &sa) == 0 && sa.sa_handler == SIG_IGN) sig_ign |= 1ULL << sg;
    }
    sigset_t cur;
    if (sigprocmask(SIG_BLOCK, NULL, &cur) == 0)
        for (int sg = 1; sg < 32; sg++)
            if (sigismember(&cur, sg)) sig_blk |= 1ULL << sg;
}

int main(int argc, char **argv)
{
    scan_fds();
    scan_signals();
    const char *name = strrchr(argv[0], '/');
    name = name ? name + 1 : argv[0];
    if (!strcmp(name, "vp_status")) return do_status(name, argc, argv);
    if (!strcmp(name, "vp_cond")) return do_cond(name, argc, argv);
    if (!strcmp(name, "vp_out")) return do_out(name, argc, argv);
    if (!strcmp(name, "vp_io")) return do_io(name, argc, argv);
    if (!strcmp(name, "vp_st")) return do_st(name, argc, argv);
    if (!strcmp(name, "vp_snap")) return do_snap(name, argc, argv);
    if (!strcmp(name, "vp_job")) return do_job(name, argc, argv);
    /* vp_argv and its aliases vp_a .. vp_f, vp, anything else */
    return do_argv(name, argc, argv);
}
