#!/usr/bin/env python3
"""tools/mut.py <CHECK> <file-in-repo> <old> <new> [count]  : apply a textual mutant to /repo, build-test it is
still compiling + passing guard-off tests (optional: MUT_TESTS=1), run the quick check, revert.  Prints a summary line."""
import os, subprocess, sys
chk, f, old, new = sys.argv[1:5]
p = os.path.join("/repo", f)
s = open(p).read()
n = s.count(old)
if n != 1:
    print("MUTANT-ERROR: pattern occurs %d times" % n); sys.exit(9)
open(p, "w").write(s.replace(old, new))
try:
    if os.environ.get("MUT_TESTS"):
        r = subprocess.run("cd /repo && cargo test --workspace --no-fail-fast --offline 2>&1 | grep -E '^test result|FAILED|^error' ", shell=True, capture_output=True, text=True)
        print(r.stdout.strip().replace("\n", " | "))
    r = subprocess.run(["./check", chk, "--tier", "quick"], cwd="/verif", capture_output=True, text=True)
    sigs = [l.split("signature=")[1] for l in r.stdout.splitlines() if l.startswith("VIOLATION")]
    print("MUTANT %s %s: exit=%d  violations=%d %s" % (chk, f, r.returncode, len(sigs), sigs[:3]))
    if r.returncode not in (0, 1):
        print(r.stdout[-800:])
finally:
    subprocess.run(["git", "-C", "/repo", "checkout", "--", f])
