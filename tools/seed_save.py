#!/usr/bin/env python3
"""tools/seed_save.py <name> <srcdir> <property> <needs> <detected_by>  : keep a confirmed seeded change"""
import json, os, shutil, sys
name, src, prop, needs, det = sys.argv[1:6]
d = os.path.join(os.path.dirname(os.path.dirname(os.path.abspath(__file__))), "seeded", name)
os.makedirs(d, exist_ok=True)
for f in os.listdir(src):
    if f in ("patch.diff", "demo.py", "demo.sh", "notes.md"):
        shutil.copy(os.path.join(src, f), d)
conf = ""
logs = ("/tmp/seed-confirm-1.log", "/tmp/seed-confirm-2.log", "/tmp/seed-confirm-3.log", "/tmp/seed-confirm-4.log", "/tmp/seed-confirm-5.log")
if os.environ.get("SEED_CONF_LOG"):
    logs = (os.environ["SEED_CONF_LOG"],)
for log in logs:
    if os.path.exists(log):
        for l in open(log):
            if l.startswith("RESULT %s " % prop):
                conf = l.strip()
json.dump({"property": prop, "origin": "independent sub-agent given only the property record and a scratch worktree",
           "needs_to_manifest": needs,
           "confirmed": "tools/seed_confirm.sh in a scratch worktree of /repo HEAD: applies, builds, existing tests pass, demo passes without / fails with the change. " + conf,
           "detected_by": det,
           # the /repo commit the patch applies to (later repairs may have moved the code it touches)
           **({"base_commit": os.environ["SEED_BASE"]} if os.environ.get("SEED_BASE") else {})},
          open(os.path.join(d, "meta.json"), "w"), indent=1)
print("saved", d)
