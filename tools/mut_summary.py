#!/usr/bin/env python3
"""tools/mut_summary.py [--since N]: verdict counts of mutation/results.jsonl and the survivors (from line N on)"""
import collections, json, os, sys
V = os.path.dirname(os.path.dirname(os.path.abspath(__file__)))
rows = [json.loads(l) for l in open(os.path.join(V, "mutation", "results.jsonl"))]
if len(sys.argv) > 2 and sys.argv[1] == "--since":
    rows = rows[int(sys.argv[2]):]
print(len(rows), collections.Counter(r["verdict"].split(":")[0] for r in rows))
for r in rows:
    if r["verdict"] in ("survived", "unjudged"):
        print("%s %s %s:%s  [%s] -> [%s]  %s" % (r["verdict"], r.get("repo_head"), r["file"], r["line"], r["before"][:90], r["after"][:90], ",".join(r["props"])))
