#!/usr/bin/env python3
"""tools/mut_summary.py [repo_head]: verdict counts of mutation/results.jsonl and the survivors (optionally of one repo head)"""
import collections, json, os, sys
V = os.path.dirname(os.path.dirname(os.path.abspath(__file__)))
rows = [json.loads(l) for l in open(os.path.join(V, "mutation", "results.jsonl"))]
if len(sys.argv) > 1:
    rows = [r for r in rows if r.get("repo_head") == sys.argv[1]]
print(collections.Counter(r["verdict"].split(":")[0] for r in rows))
for r in rows:
    if r["verdict"] in ("survived", "unjudged"):
        print("%s %s:%s  [%s] -> [%s]  %s" % (r["verdict"], r["file"], r["line"], r["before"][:90], r["after"][:90], ",".join(r["props"])))
