#!/usr/bin/env python3
"""tools/c05_pty_reduce.py <replay.json>: shrink the key sequence of a C05 layer-3 (pty) violation by delta debugging
and print the minimal sequence with the tail of the terminal output."""
import json, os, sys, time
V = os.path.dirname(os.path.dirname(os.path.abspath(__file__)))
sys.path.insert(0, os.path.join(V, "lib"))
import common, ptydrv  # noqa: E402


def dies(sb, keys):
    sb.reset_log()
    s = ptydrv.PtySession(sb, env_extra={"X": "$X"}, budget=3000)
    try:
        ok, _ = s.wait_prompt(15)
        if not ok:
            return None, b""
        for k in keys:
            s.send(k)
            if k.endswith("\r"):
                s.drain(0.05, 1.0)
        s.drain(0.1, 1.0)
        for attempt in range(2):
            s.send("\x03")
            s.drain(0.05, 0.5)
            s.send("\x15")
            s.send("vp_argv SENTINEL%d\r" % attempt)
            t0 = time.time()
            while time.time() - t0 < 3:
                s.drain(0.05, 0.3)
                if any(x["name"] == "vp_argv" and x["argv"][1:2] == ["SENTINEL%d" % attempt] for x in sb.records()):
                    return False, s.all[-300:]
                if not s.alive():
                    break
            if not s.alive():
                break
        return True, s.all[-500:]
    finally:
        s.close()


def main():
    d = json.load(open(sys.argv[1]))
    keys = d["cases"][0]["detail"]["keys"]
    common.build_helpers()
    sb = common.Sandbox(common.build_cicada("debug"), "c05red")
    for n in ("fa", "fb c"):
        open(os.path.join(sb.work, n), "w").close()
    os.makedirs(os.path.join(sb.work, "d1"), exist_ok=True)
    bad, tail = dies(sb, keys)
    print("full sequence reproduces:", bad)
    if not bad:
        return
    n = 2
    while len(keys) >= 2:
        chunk = max(1, len(keys) // n)
        reduced = False
        for i in range(0, len(keys), chunk):
            cand = keys[:i] + keys[i + chunk:]
            b, t = dies(sb, cand)
            if b:
                keys, tail, reduced = cand, t, True
                n = max(n - 1, 2)
                break
        if not reduced:
            if chunk == 1:
                break
            n = min(n * 2, len(keys))
    print("minimal keys:", json.dumps(keys))
    print("tail:", tail.decode("utf-8", "replace")[-400:])


main()
