#!/usr/bin/env python3
"""tools/probe.py [-s script-mode] LINE...  : run lines through cicada -c in a sandbox, show records"""
import sys, os
sys.path.insert(0, os.path.join(os.path.dirname(os.path.abspath(__file__)), "..", "lib"))
import common
cic = os.path.join(common.CACHE, "t-bin", "debug", "cicada")
sb = common.Sandbox(cic, "probe")
args = sys.argv[1:]
script = False
if args and args[0] == "-s":
    script = True; args = args[1:]
setup = os.environ.get("PROBE_SETUP")
if setup:
    import subprocess; subprocess.run(setup, shell=True, cwd=sb.work)
for line in args:
    sb.reset_log()
    if script:
        p = os.path.join(sb.root, "p.sh"); open(p, "w").write(line + "\n")
        r = common.run_cicada(sb, [p], timeout=8, watch=["A", "B", "PWD"])
    else:
        r = common.run_cicada(sb, ["-c", line], timeout=8, watch=["A", "B", "PWD"])
    print("LINE %r rc=%s timed_out=%s" % (line, r.rc, r.timed_out))
    if r.out: print("  out:", r.out[:300])
    if r.err: print("  err:", r.err[:300])
    for x in sb.records():
        extra = {k: x[k] for k in ("stdin", "code", "nin", "pfds", "sib") if k in x}
        print("  ", x["kind"], x["argv"], "fds", x.get("open_fds"), extra if extra else "")
    print("  files:", {k: v for k, v in sb.listing().items()})
sb.close()
