#!/usr/bin/env python3
"""tools/mut1.py <PROP[,PROP..]> <file> <line> <before-substring> <after-substring>: one hand-picked mutant against
the quick check(s), in the scratch worktree /tmp/wtc-try2 with its own cache (never /repo)."""
import os, subprocess, sys
V = os.path.dirname(os.path.dirname(os.path.abspath(__file__)))
props, f, line, old, new = sys.argv[1].split(","), sys.argv[2], int(sys.argv[3]), sys.argv[4], sys.argv[5]
wt = "/tmp/wtc-try2"
head = subprocess.run(["git", "-C", "/repo", "rev-parse", "HEAD"], capture_output=True, text=True).stdout.strip()
subprocess.run(["git", "-C", wt, "checkout", "-q", "--detach", head]); subprocess.run(["git", "-C", wt, "checkout", "-q", "--", "."])
p = os.path.join(wt, f)
lines = open(p).read().split("\n")
assert old in lines[line - 1], lines[line - 1]
lines[line - 1] = lines[line - 1].replace(old, new, 1)
open(p, "w").write("\n".join(lines))
env = dict(os.environ, VERIF_REPO=wt, VERIF_CACHE="/tmp/wtc-try2-cache", VERIF_EVIDENCE="/tmp/wtc-try2-evidence")
for pr in props:
    r = subprocess.run([os.path.join(V, "check"), pr, "--tier", "quick"], cwd=V, env=env, capture_output=True, text=True)
    sigs = [l.split("signature=")[1][:150] for l in r.stdout.split("\n") if l.startswith("VIOLATION") and "signature=" in l]
    print(pr, "exit", r.returncode, sigs[:2])
subprocess.run(["git", "-C", wt, "checkout", "-q", "--", "."])
