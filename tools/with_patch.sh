#!/bin/bash
# tools/with_patch.sh <patch> <cmd...> : apply patch to /repo, run cmd, always undo
p=$1; shift
git -C /repo apply "$p" || { echo "patch does not apply"; exit 9; }
"$@"; rc=$?
git -C /repo checkout -- . 
echo "exit=$rc"
