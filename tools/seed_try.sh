#!/bin/bash
# tools/seed_try.sh <PROP> <dir>: confirm a seeded change and run the property's quick check against it
id=$1; d=$2
./tools/seed_confirm.sh $id $d 2>&1 | grep RESULT | cut -c1-80 | tee -a /tmp/seed-confirm-4.log
tools/with_patch.sh $d/patch.diff timeout 1800 ./check $id --tier quick 2>&1 | grep -v "KNOWN\|first case" | tail -4 | cut -c1-260
