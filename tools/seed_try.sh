#!/bin/bash
# tools/seed_try.sh <PROP> <dir> [extra PROP ...]: confirm a seeded change, then run the quick check(s) against it
# in a scratch worktree with its own build cache and evidence directory (/repo, .cache and evidence/ stay untouched,
# so this can run next to other checks).
id=$1; d=$(realpath $2); shift 2
./tools/seed_confirm.sh $id $d 2>&1 | grep RESULT | cut -c1-80 | tee -a /tmp/seed-confirm-5.log
wt=/tmp/wtc-try${SLOT:-}
if [ ! -d $wt ]; then git -C /repo worktree add -q --detach $wt HEAD || exit 9; fi
git -C $wt checkout -q --detach $(git -C /repo rev-parse HEAD) && git -C $wt checkout -q -- . || exit 9
git -C $wt apply $d/patch.diff || { echo "patch does not apply"; exit 9; }
export VERIF_REPO=$wt VERIF_CACHE=/tmp/wtc-try${SLOT:-}-cache VERIF_EVIDENCE=/tmp/wtc-try${SLOT:-}-evidence
mkdir -p $VERIF_EVIDENCE
for p in $id "$@"; do
  timeout 3600 ./check $p --tier ${TIER:-quick} 2>&1 | grep -v "KNOWN\|first case" | tail -4 | cut -c1-260
  echo "exit=${PIPESTATUS[0]}"
done
git -C $wt checkout -q -- .
