#!/usr/bin/env python3
"""Regenerate /verif/MANIFEST.json from the table below (run after adding a check)."""
import json
import os
import subprocess

VERIF = os.path.dirname(os.path.dirname(os.path.abspath(__file__)))

# id -> (level category, technique, level text, level note, design ref)
CHECKS = {
    "C03": ("exploration",
            "runtime monitoring: observer programs log markers/$? probes; offline checker compares the ordered event log with a reference evaluator",
            "Every list program up to 6 operands over {;,&&,||}x{0,1} is executed by the real binary and judged; random longer programs with decoys (incl. a # in the middle of a word) / probes / other codes / failing builtins sampled, through -c and script files, and as the body of a taken if / else branch, of a for loop left by break, of a function called inside a list of its own and of a function whose output is captured. Held = held on the executions observed.",
            "trusts the helper binary's atomic O_APPEND logging and the 6-line reference evaluator taken from the statement",
            "DESIGN.md 3 C03"),
    "C02": ("exploration",
            "runtime monitoring: instrumented pipeline stages (start/end records, byte counts, FNV hashes), shell snapshot by the follow-up command; offline checker for exactly-once, per-link conservation, ordering, leftover children, status; /proc deadlock diagnosis under a watchdog",
            "All finishing orders for n<=4 stages are forced and observed with payloads up to 1 MiB; exit codes, signals and non-reading/failing stages in every position, an earlier background job ending meanwhile and pipelines run after other commands of the same shell are sampled; every stage's wiring (one pipe per link, the shell's descriptors at the ends, nothing else open) and the inherited disposition of every signal that must be able to end or stop it are read from its start record; a builtin stage that writes several lines must deliver them all; the last word of the line may be a quoted &. Held = held on the executions observed.",
            "trusts the stage helpers' byte counting/hashing; a hang is a violation only with a /proc deadlock diagnosis",
            "DESIGN.md 3 C02"),
    "C04": ("exploration",
            "runtime monitoring: observer command records stdin bytes and writes marked lines to fd 1/2; follow-up observers record status, descriptor identity and the shell's fd table; oracle = reference model of open file descriptions; failing cases are shrunk before classification",
            "Random redirection lists (<=4 of 11 operator spellings) x external/builtin x 4 pipeline positions x target states are executed and compared with a reference model of open file descriptions; 30% of the external commands also carry arguments with a quoted or escaped operator, and after every command the directory may hold nothing but the named targets.",
            "trusts the POSIX open-file-description model in lib/c04.py; nothing demanded of a failing command's own targets",
            "DESIGN.md 3 C04"),
    "C08": ("fault_enumeration",
            "runtime monitoring: every spawned helper reports its inherited descriptors; vp_snap snapshots /proc/<shell>/fd between commands; fault enumeration of RLIMIT_NOFILE 4..40 via the ulimit builtin",
            "Every RLIMIT_NOFILE value 4..40 is injected before 13 command shapes (the resource on the first, a middle or the last stage, inside a substitution, on a builtin alone); random command sequences (pipelines, redirections, builtins, substitutions, here-strings, failures, background jobs, source / functions / read / lists) are run with a quiescent snapshot of the shell's table after every command and a descriptor report from every child.",
            "trusts /proc/<pid>/fd and the helpers' fcntl scan; programs that never reach main are not observed in quick",
            "DESIGN.md 3 C08"),
    "C01": ("exploration",
            "runtime monitoring: observer program logs the argv/descriptors/parent it was started with; follower observer after | ; && ||; decoy files and sentinel HOME; failing lines are shrunk to one argument and a minimal text before classification",
            "Every argument text of length <=2 (quick) / <=3 (thorough) over the 30-symbol alphabet in each of the three quoting styles and in only/first/middle/last/last-before-operator position is executed by the real binary; longer mixed lines sampled. An in-process explorer (exec interceptor hook: the command lines cicada is about to execute) covers every text of length <=3 (quick) / <=4 (thorough) over 27 symbols x 3 styles x followers; every text it flags is shrunk and then executed by the real binary, whose observation decides.",
            "trusts the helper's argv record; ESC style = backslash before every non-alphanumeric ASCII character",
            "DESIGN.md 3 C01"),
    "C10": ("exploration",
            "runtime monitoring: observer argv compared with a single-pass reference substitution; non-termination decided by the step-budget hook (bounded rewrite steps) backed by a /proc spin diagnosis",
            "Random words of adjacent references under adversarial value environments (self/mutual reference, $-text, braces, regex-special) in three quoting forms, values exported, assigned, re-assigned or read; 5% of the words have a brace list of their own next to the reference.  Listed findings apply only where the later pass would really change the inserted text.",
            "names matched greedily as [A-Za-z0-9_]+; unquoted words compared modulo blank runs",
            "DESIGN.md 3 C10"),
    "C12": ("exploration",
            "runtime monitoring: observer argv in prepared directory populations compared with a reference expander (brace product, inclusive range, HOME, sorted non-hidden matches); failing lines reduced to the single failing word",
            "Random brace terms from a grammar, ranges over boundary bounds (with escaped blanks around them), ranges or comma-less groups as alternatives, never-closed braces next to a group, words that only look like a range, tilde forms (12% of the lines with HOME set to / or written with a trailing slash) (incl. a second ~ later in the word) and glob patterns against 6 directory populations (incl. matches two and more levels down, relative / absolute / under ~, hidden entries at every level, hidden directories written out), each next to quoted neighbours, as a command's arguments and as the word list of a script `for`, executed by the real binary.",
            "reference expander in lib/c12.py; one expansion kind per word; words expanding to an empty word not generated",
            "DESIGN.md 3 C12"),
    "C11": ("exploration",
            "runtime monitoring: inner observer vp_out logs one record per run (exactly-once) and emits prepared stdout/stderr/status; outer observer records the resulting word; shell snapshots before/after; step-budget hook for termination",
            "Random words with 1..3 substitutions in 5 contexts, 10 inner-command kinds (incl. a substitution of the other spelling inside, and quoted arguments containing ) ( \\ and quotes) (also run by a function, or piped into a builtin) and 18 output classes (one of 90 KB, more than a pipe buffer; 6% of the inner commands also write 100 KB to stderr, all of which must arrive; 4% write stderr after closing stdout; scripts with 20..60 failing substitutions before a good one) are executed and compared with prefix+output-minus-trailing-newlines+suffix; stderr pass-through, exactly-once, the inner command's own argv and shell state are checked on every run.",
            "unquoted results compared modulo blank/newline runs",
            "DESIGN.md 3 C11"),
    "C13": ("exploration",
            "runtime monitoring: observer records argv, identity of its fds 0/1/2 and its parent; directory listing before/after; any further helper record is an extra command",
            "The finite product value-class (incl. multi-line values and text that reads as a command substitution) x delivery ($V, ${V}, assigned, $(), backquotes, * match of a file, * in a directory position matching a directory with that name, $V inside a substitution in six shapes) x quoting x position (first/middle/last argument, command word, value of a leading assignment word, glued to name= as an argument) x neighbouring-word tag, and again next to a genuine < f / <<< w / > f on the same command, is enumerated completely (14.6k executions); thorough adds 20k random operator mixes.",
            "unquoted results compared modulo blank runs",
            "DESIGN.md 3 C13"),
    "C09": ("exploration",
            "runtime monitoring: a probe observer after every operation records the expansion values (argv), the environment it received and its cwd; $? probes after cd; relative-redirection files located afterwards; oracle = reference model of shell/exported variables, cwd, previous dir",
            "Random histories of <=30 assignment/prefix/export/unset/read/cd/redirection operations over a generated tree with symlinks, non-directories and missing entries; every intermediate state is observed, not only the final one; values are written between quotes, with escaped blanks, or copied from another name ($N, ${N}, \"$N\").",
            "model in lib/c09.py; symlinks resolved with realpath as cd canonicalises",
            "DESIGN.md 3 C09"),
    "C19": ("exploration",
            "runtime monitoring of two builds (overflow checks on / off): stdout+status of `-c EXPR` and observer argv of `$(EXPR)` compared with an exact reference evaluator and a PEG-equivalent reference parser; panic/abort detection",
            "Random expression trees over i64-boundary operands and decimals that are not exact in binary, all operator pairs, every boundary-operand pair per operator, every pair of + - * / over inexact decimals (compared bit-exactly), blanks around the expression and both substitution spellings, and every classified string of length<=4 (thorough 5) over the arithmetic alphabet are evaluated by both builds.",
            "where an intermediate leaves i64 only absence of a crash is demanded; $(EXPR) used only for parenthesis-free expressions",
            "DESIGN.md 3 C19"),
    "C14": ("exploration",
            "runtime monitoring: marker/condition/loop-variable observers produce an ordered execution trace; offline checker compares it with the trace of a reference interpreter run on the same AST with the same pre-programmed condition sequences; negatives must be diagnosed",
            "Random ASTs (depth<=4, <=30 nodes) in both accepted spellings are executed by the real interpreter and every trace event (command, condition evaluation with its index, loop binding) is compared in order.",
            "vp_cond's flock'ed cursor gives each evaluation the next pre-programmed status; exit status only compared when the last event is a plain command",
            "DESIGN.md 3 C14"),
    "C15": ("exploration",
            "runtime monitoring: probe observers for \"$0\" \"$1\" \"${2}\" \"$@\" and $? placed in the script, in function bodies and in sourced files; marker observers; process exit status; oracle = reference model of the documented semantics run on the same structure",
            "Generated scripts with arguments (incl. blanks and specials), functions in both header spellings, source chains to depth 3, exit / set -e / failing commands at random positions, if / else-if / else chains, for loops (also over positional parameters) and while loops whose condition lines carry the positional parameters, in the script, in function bodies and in sourced files; 6% of the scripts run on a pseudo-terminal behind a background command; the whole ordered event list and the exit status are compared.",
            "model in lib/c15.py; the state right after an if none of whose branches ran is not judged",
            "DESIGN.md 3 C15"),
    "C18": ("exploration",
            "runtime monitoring: the sqlite file is read by an independent client (python sqlite3) after every mutating step and listings come from fresh cicada processes; oracle = row model (one row per submission, verbatim, submission order, exact deletes, read-only searches); concurrent adders (conservation) and overlapping pty sessions",
            "Random multi-process histories from directories and with texts/patterns over the quote/percent/underscore/backslash/semicolon/--/)/multi-byte alphabet incl. injection-shaped strings; interactive sessions for the leading-blank/repeat rules, for submission order under overlap and for restarts (with and without HISTORY_DELETE_DUPS=0).",
            "LIKE exactness only demanded for wildcard-free ASCII patterns; option-looking patterns not judged",
            "DESIGN.md 3 C18"),
    "C17": ("exploration",
            "runtime monitoring: alias values start with observer programs (argv reached through an alias is recorded); listings captured through the builtin's redirection and fed to a fresh shell; oracle = alias-table model over a history of operations",
            "Random histories of define/redefine/unalias/list/show/use with names over [A-Za-z0-9_.-]+ (incl. pairs differing only in letter case or in the separator character) and values with options, quoted blanks, pipes, other alias names and self reference; uses at line start, after | ; &&, in every stage of a pipeline, right behind their own definition on one line, as non-first word (also behind a quoted pipe word) and as the first word of a for list; values may carry a redirection; listings go to a file, a pipe or a substitution.",
            "expected argv = shell-split alias value + remaining words",
            "DESIGN.md 3 C17"),
    "C16": ("exploration",
            "runtime monitoring, differential: the same helper-based line is run through -c, a script, a function body, a sourced file and a pty prompt in identically prepared directories; the observation tuples (helper records incl. stdin bytes, files, status) must equal the -c tuple",
            "Lines from the generators of C01 C03 C04 C10 C11 C12 (no positional parameters) are replayed through the entry points; one third also through a live pty session; every metacharacter as the last word of a line (escaped and quoted) goes through all five.",
            "oracle is equality with -c, no model; records compared as sorted multisets",
            "DESIGN.md 3 C16"),
    "C06": ("exploration",
            "runtime monitoring of the real job-table code under an injected scheduler: child status changes come from a virtual kernel through the cfg-guarded waitpid hook; depth-first enumeration of scheduler choices (exhaustive within a bound, budgeted beyond, random walks deeper) with an online reference model after every poll / foreground-wait return",
            "Every schedule within (3 events, 2 jobs, 2 processes, 2 launches) [thorough: 4 events] is executed against the real Shell/jobc/signals code; larger bounds are explored depth-first under a budget and by random walks to depth 60; all three phases run twice, polling (default) and with the asynchronous SIGCHLD handler as a scheduler choice of its own; evidence reports states, executions, completed schedules.",
            "fidelity of the virtual kernel (one pending stop/continue per process, continue overwrites unreported stop) is argued, not proved; fg/bg emulated without tcsetpgrp",
            "DESIGN.md 3 C06"),
    "C07": ("exploration",
            "runtime monitoring of live pty sessions: tcgetpgrp on the pty master, /proc/<pid>/stat of every helper (pids from their own start records), `jobs` lines and job notices; a session model fed by /proc decides each action's postcondition",
            "Random interactive sessions of 5..25 actions (fg/bg pipelines, Ctrl-Z, Ctrl-C, fg, bg, external STOP/CONT/KILL/TERM, finishing jobs, jobs, plain lines), a quarter of them with the SIGCHLD handler enabled; terminal ownership sampled at every prompt.",
            "bounded polls for asynchronous effects, expiry = inconclusive; `jobs` asked twice before judging",
            "DESIGN.md 3 C07"),
    "C05": ("exploration",
            "runtime monitoring in three layers: exhaustive in-process sweep of all pure stages under catch_unwind with a step budget on the rewrite loops (hook), generated/mutated lines through the real binary (two builds) under a watchdog with /proc hang diagnosis and a sentinel command, random key sequences through a pty followed by a sentinel command",
            "All strings of length<=5 (thorough 6) over a 14-symbol special alphabet and all sequences of <=4 (5) fragments of three further alphabets (operators/arithmetic, multi-byte letters, backslash x every kind of blank) go through every pure stage under catch_unwind, a step budget and a per-input SIGALRM watchdog; 5k (60k) generated lines, directed lines (ranges far too large to build, functions that call themselves, values that are one quote character) and 96 (1000) pty sessions go through the real shell, plus Ctrl-C typed while a builtin prints more than the terminal takes; every shell runs under a 6 GB address-space limit so that a runaway allocation ends as a crash of that shell.",
            "step budget 2000/3000 iterations = non-termination; hang is a violation only with a /proc diagnosis",
            "DESIGN.md 3 C05"),
    "C20": ("exploration",
            "runtime monitoring: live pty sessions typing a prefix + TAB + Enter in generated directories with an observer recording the argv finally received; in-process companion (hook exports) emulating the editor's splice for every short name in three quoting contexts and checking candidate sets",
            "Every name of length<=2 (thorough 3) over a 30-symbol special alphabet x {unquoted, open double quote, open single quote} x {file, directory} goes through word-start + complete_path + splice + list splitting + planning in-process; 880 (5200) generated directory populations are exercised through a real pty: entries in the current directory, inside a specially named sub-directory, and directories after `cd` next to a file sharing the prefix.",
            "prefixes typed as cicada's tokenizer reads them back; untypable prefixes skipped and counted",
            "DESIGN.md 3 C20"),
}

NOT_YET = "check not built yet (work in progress); runtime monitoring is applicable and planned, see DESIGN.md section 3"


def main():
    props = [json.loads(l) for l in open(os.path.join(VERIF, "properties.jsonl"))]
    try:
        commits = subprocess.run(["git", "-C", "/repo", "log", "--format=%h %s"], capture_output=True,
                                 text=True).stdout.splitlines()
        hook_commits = [c.split()[0] for c in commits if "verif hook" in c]
    except Exception:
        hook_commits = []
    m = {
        "version": 1,
        "setup_cmd": "./check setup",
        "hooks": {
            "guard": "cicada_verif",
            "enable": "RUSTFLAGS=--cfg cicada_verif (set by lib/common.py for every build of /repo)",
            "baseline_off_cmd": "cd /repo && cargo test --workspace --no-fail-fast --offline",
            "source_commits": hook_commits,
            "add_only": True,
        },
        "engines": [
            {"name": "observers", "path": "helpers/vp.c", "serves_properties": sorted(CHECKS),
             "kind_free_text": "static multi-call C helper programs that record argv/fds/env/cwd/stdin/bytes to an O_APPEND JSONL event log"},
            {"name": "in-process harness", "path": "harness/", "serves_properties": ["C01", "C05", "C06", "C20"],
             "kind_free_text": "Rust crate built against /repo with --cfg cicada_verif: planned-command explorer (exec interceptor), exhaustive sweeps of the pure stages under catch_unwind + step budget, virtual-kernel scheduler for the job table (waitpid hook), completion splice emulation"},
            {"name": "drivers+checkers", "path": "lib/", "serves_properties": sorted(CHECKS),
             "kind_free_text": "python stdlib drivers (batch, script, pty), generators, reference models and offline checkers over the event log"},
        ],
        "checks": [],
        "not_applicable": [],
        "notes": "All checks: ./check <ID> --tier quick|thorough [--seed N]; VERIF_SEED honoured. Known genuine defects are listed in known_findings.json and printed as KNOWN-FINDING lines.",
    }
    for p in props:
        i = p["id"]
        if i in CHECKS and os.path.exists(os.path.join(VERIF, "lib", i.lower() + ".py")):
            cat, tech, text, note, ref = CHECKS[i]
            m["checks"].append({
                "property_id": i,
                "quick_cmd": "./check %s --tier quick" % i,
                "thorough_cmd": "./check %s --tier thorough" % i,
                "evidence_file": "evidence/%s.json" % i,
                "replay_cmd_template": "./check %s --replay {path}" % i,
                "engine": "drivers+checkers",
                "level_claimed": {"category": cat, "text": text, "design_ref": ref},
                "level_note": note,
                "technique": tech,
            })
        else:
            m["not_applicable"].append({"property_id": i, "reason": NOT_YET})
    with open(os.path.join(VERIF, "MANIFEST.json"), "w") as f:
        json.dump(m, f, indent=1)
    print("checks:", [c["property_id"] for c in m["checks"]])


if __name__ == "__main__":
    main()
