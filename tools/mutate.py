#!/usr/bin/env python3
"""tools/mutate.py --file src/x.rs [--fn NAME ...] --props C01,C03 [--n 20] [--seed 1]

Mutation campaign against a scratch worktree (/tmp/wtc-mut; /repo is never touched): random small syntactic
mutants (relational / boolean operator swaps, +1/-1, dropped `!`, dropped `continue`/`break`/call statements,
true/false) in the chosen file (optionally only inside the named functions).  A mutant counts only if it compiles
and the repository's own test suite still passes; the listed properties' quick checks then judge it.
Appends one JSON line per mutant to mutation/results.jsonl: survived (all checks exit 0) / killed (some exit 1) /
unjudged (exit 2) / invalid (does not compile or killed by the repository's tests)."""
import argparse, json, os, random, re, subprocess, sys, time
V = os.path.dirname(os.path.dirname(os.path.abspath(__file__)))
SLOT = os.environ.get("SLOT", "")        # several campaigns side by side: SLOT=a tools/mutate.py ...
WT = "/tmp/wtc-mut" + SLOT
ENV = dict(os.environ, VERIF_REPO=WT, VERIF_CACHE=WT + "-cache", VERIF_EVIDENCE=WT + "-evidence",
           CARGO_NET_OFFLINE="true", CARGO_TARGET_DIR=WT + "-target")

OPS = [
    (r" == ", " != "), (r" != ", " == "), (r" < ", " <= "), (r" <= ", " < "), (r" > ", " >= "), (r" >= ", " > "),
    (r" && ", " || "), (r" \|\| ", " && "), (r" \+ 1\b", " - 1"), (r" - 1\b", " + 1"), (r" \+ 1\b", ""), (r" - 1\b", ""),
    (r"\btrue\b", "false"), (r"\bfalse\b", "true"), (r"(?<![=!<>])!(?=[a-z_(])", ""), (r"\.is_empty\(\)", ".is_empty() == false"),
    (r"^(\s*)continue;\s*$", r"\1"), (r"^(\s*)break;\s*$", r"\1"), (r"^(\s*)[a-z_][a-zA-Z0-9_:.]*\([^;{}]*\);\s*$", r"\1"),
    (r"\b0\b", "1"), (r"\b1\b", "0"), (r"\bi \+ 1\b", "i"), (r"\.push\(", ".insert(0, "), (r"\+= 1", "+= 2"), (r"-= 1", "-= 0"),
]


def candidate_lines(text, fns):
    lines = text.split("\n")
    ok = [False] * len(lines)
    in_tests = False
    depth = 0
    cur_fn = None
    fn_depth = None
    for i, l in enumerate(lines):
        if re.match(r"\s*#\[cfg\(test\)\]", l) or re.match(r"\s*mod tests\b", l):
            in_tests = True
        m = re.match(r"\s*(pub(\([a-z]+\))? )?(unsafe )?(extern \"C\" )?fn ([a-zA-Z0-9_]+)", l)
        if m and cur_fn is None:
            cur_fn, fn_depth = m.group(5), depth
        depth += l.count("{") - l.count("}")
        s = l.strip()
        if not in_tests and cur_fn and (not fns or cur_fn in fns) and s and not s.startswith(("//", "#[", "log!", "println", "print", "use ")) \
                and "cicada_verif" not in l and "verif::" not in l and "println_stderr" not in l:
            ok[i] = True
        if cur_fn is not None and depth <= fn_depth and "}" in l:
            cur_fn = None
    return lines, [i for i, v in enumerate(ok) if v]


def sh(cmd, **kw):
    return subprocess.run(cmd, shell=isinstance(cmd, str), capture_output=True, text=True, **kw)


def main():
    ap = argparse.ArgumentParser()
    ap.add_argument("--file", required=True)
    ap.add_argument("--fn", action="append", default=[])
    ap.add_argument("--props", required=True)
    ap.add_argument("--n", type=int, default=10)
    ap.add_argument("--seed", type=int, default=1)
    a = ap.parse_args()
    props = a.props.split(",")
    head = sh(["git", "-C", "/repo", "rev-parse", "HEAD"]).stdout.strip()
    if not os.path.isdir(WT):
        subprocess.run(["git", "-C", "/repo", "worktree", "add", "-q", "--detach", WT, "HEAD"], check=True)
    sh(["git", "-C", WT, "checkout", "-q", "--detach", head]); sh(["git", "-C", WT, "checkout", "-q", "--", "."])
    os.makedirs(WT + "-evidence", exist_ok=True)
    os.makedirs(os.path.join(V, "mutation"), exist_ok=True)
    out = open(os.path.join(V, "mutation", "results.jsonl"), "a")
    path = os.path.join(WT, a.file)
    orig = open(path).read()
    lines, cands = candidate_lines(orig, set(a.fn))
    rng = random.Random("%s|%s|%d" % (a.file, ",".join(a.fn), a.seed))
    tried = set()
    done = 0
    attempts = 0
    while done < a.n and attempts < a.n * 40:
        attempts += 1
        i = rng.choice(cands)
        pat, rep = rng.choice(OPS)
        ms = list(re.finditer(pat, lines[i]))
        if not ms:
            continue
        m = rng.choice(ms)
        new = lines[i][:m.start()] + m.expand(rep) + lines[i][m.end():]
        key = (i, new)
        if key in tried or new == lines[i]:
            continue
        tried.add(key)
        mut = lines[:i] + [new] + lines[i + 1:]
        open(path, "w").write("\n".join(mut))
        rec = {"file": a.file, "line": i + 1, "before": lines[i].strip(), "after": new.strip(), "repo_head": head[:7], "props": props}
        t0 = time.time()
        try:
            b = sh("cargo build --offline 2>&1 | tail -3", cwd=WT, env=ENV)
            if "error" in b.stdout and "could not compile" in b.stdout:
                rec["verdict"] = "invalid:does-not-compile"
                continue
            t = sh("cargo test --workspace --no-fail-fast --offline 2>&1 | grep -E '^test result|^error'", cwd=WT, env=ENV)
            if "FAILED" in t.stdout or "error" in t.stdout or t.stdout.count("test result: ok") < 3:
                rec["verdict"] = "invalid:killed-by-repository-tests"
                continue
            exits = {}
            sigs = {}
            for p in props:
                r = sh([os.path.join(V, "check"), p, "--tier", "quick"], cwd=V, env=ENV)
                exits[p] = r.returncode
                s = [l.split("signature=")[1][:140] for l in r.stdout.split("\n") if l.startswith("VIOLATION") and "signature=" in l]
                if s:
                    sigs[p] = s[:2]
                if r.returncode == 1:
                    break
            rec["exits"], rec["signatures"] = exits, sigs
            rec["verdict"] = "killed" if 1 in exits.values() else ("unjudged" if any(v not in (0, 1) for v in exits.values()) else "survived")
            done += 1
        finally:
            rec["seconds"] = round(time.time() - t0)
            print(json.dumps(rec)); sys.stdout.flush()
            out.write(json.dumps(rec) + "\n"); out.flush()
            open(path, "w").write(orig)
    sh(["git", "-C", WT, "checkout", "-q", "--", "."])


main()
