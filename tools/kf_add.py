#!/usr/bin/env python3
"""tools/kf_add.py <property> <open|fixed> <commit|-> <what> <example> <signature> [<signature> ...]
Append entries to known_findings.json (one per signature, skipping signatures already listed)."""
import json, os, sys
V = os.path.dirname(os.path.dirname(os.path.abspath(__file__)))
prop, status, commit, what, example = sys.argv[1:6]
p = os.path.join(V, "known_findings.json")
kf = json.load(open(p))
have = {f["signature"] for f in kf["findings"]}
n = 0
for sig in sys.argv[6:]:
    if sig in have:
        print("already listed:", sig)
        continue
    e = {"property": prop, "status": status}
    if status == "fixed":
        e["commit"] = commit
        e["what"] = "fixed: property=%s %s %s" % (prop, commit, what)
    else:
        e["what"] = what
    e["signature"] = sig
    e["example"] = example
    kf["findings"].append(e)
    n += 1
json.dump(kf, open(p, "w"), indent=1, ensure_ascii=False)
print("added", n)
