#!/bin/bash
# tools/try_patch.sh <patch.diff> <PROP> [PROP ...]: run the quick check(s) against /repo HEAD + patch in a scratch worktree
# (own build cache and evidence directory; /repo, .cache and evidence/ stay untouched).  SLOT=x picks the scratch names.
p=$(realpath $1); shift
cd "$(dirname "$0")/.."
wt=/tmp/wtc-try${SLOT:-}
if [ ! -d $wt ]; then git -C /repo worktree add -q --detach $wt HEAD || exit 9; fi
git -C $wt checkout -q --detach $(git -C /repo rev-parse HEAD) && git -C $wt checkout -q -- . || exit 9
git -C $wt apply $p || { echo "patch does not apply"; exit 9; }
export VERIF_REPO=$wt VERIF_CACHE=/tmp/wtc-try${SLOT:-}-cache VERIF_EVIDENCE=/tmp/wtc-try${SLOT:-}-evidence
mkdir -p $VERIF_EVIDENCE
for id in "$@"; do
  timeout 3600 ./check $id --tier ${TIER:-quick} --seed ${SEED:-1} 2>&1 | grep -v "KNOWN\|first case" | tail -${TAIL:-6} | cut -c1-260
  echo "exit=${PIPESTATUS[0]}"
done
git -C $wt checkout -q -- .
