#!/bin/bash
# tools/run_all.sh [tier] [seed] [IDs...] : run the checks one after the other on the unchanged tree, one summary line each
tier=${1:-quick}; seed=${2:-1}; shift 2
ids=${@:-C01 C02 C03 C04 C05 C06 C07 C08 C09 C10 C11 C12 C13 C14 C15 C16 C17 C18 C19 C20}
cd "$(dirname "$0")/.."
for p in $ids; do
  s=$(date +%s)
  out=$(./check $p --tier $tier --seed $seed 2>&1); rc=$?
  echo "$p tier=$tier seed=$seed rc=$rc wall=$(( $(date +%s) - s ))s known=$(echo "$out" | grep -c KNOWN-FINDING) viol=$(echo "$out" | grep -c '^VIOLATION')"
  echo "$out" | grep -E "^VIOLATION|INFRASTRUCTURE|inconclusive" | head -8
done
