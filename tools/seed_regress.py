#!/usr/bin/env python3
"""tools/seed_regress.py [name-prefix ...]: run every kept seeded change against its property's quick check
(in the scratch worktree /tmp/wtc-try with its own cache; /repo is not touched) and write seeded/REGRESSION.json:
per seed whether the patch still applies to /repo HEAD, the check's exit status and the first signatures."""
import json, os, subprocess, sys
V = os.path.dirname(os.path.dirname(os.path.abspath(__file__)))
wt = "/tmp/wtc-try"
env = dict(os.environ, VERIF_REPO=wt, VERIF_CACHE="/tmp/wtc-try-cache", VERIF_EVIDENCE="/tmp/wtc-try-evidence")
os.makedirs("/tmp/wtc-try-evidence", exist_ok=True)
head = subprocess.run(["git", "-C", "/repo", "rev-parse", "HEAD"], capture_output=True, text=True).stdout.strip()
if not os.path.isdir(wt):
    subprocess.run(["git", "-C", "/repo", "worktree", "add", "-q", "--detach", wt, "HEAD"], check=True)
out_path = os.path.join(V, "seeded", "REGRESSION.json")
res = json.load(open(out_path)) if os.path.exists(out_path) else {}
for name in sorted(os.listdir(os.path.join(V, "seeded"))):
    d = os.path.join(V, "seeded", name)
    if not os.path.isfile(os.path.join(d, "patch.diff")):
        continue
    if sys.argv[1:] and not any(name.startswith(a) for a in sys.argv[1:]):
        continue
    prop = name[:3]
    subprocess.run(["git", "-C", wt, "checkout", "-q", "--detach", head]); subprocess.run(["git", "-C", wt, "checkout", "-q", "--", "."])
    r = subprocess.run(["git", "-C", wt, "apply", os.path.join(d, "patch.diff")], capture_output=True, text=True)
    if r.returncode != 0:
        res[name] = {"repo_head": head[:7], "applies": False, "note": "patch no longer applies to the repaired tree"}
        print(name, "does not apply"); continue
    r = subprocess.run([os.path.join(V, "check"), prop, "--tier", "quick"], cwd=V, env=env, capture_output=True, text=True)
    sigs = [l.split("signature=")[1][:160] for l in r.stdout.split("\n") if l.startswith("VIOLATION") and "signature=" in l]
    res[name] = {"repo_head": head[:7], "applies": True, "check": "./check %s --tier quick" % prop, "exit": r.returncode,
                 "violation_signatures": len(sigs), "first_signatures": sigs[:3]}
    print(name, "exit", r.returncode, sigs[:1])
    json.dump(res, open(out_path, "w"), indent=1, sort_keys=True)
subprocess.run(["git", "-C", wt, "checkout", "-q", "--", "."])
json.dump(res, open(out_path, "w"), indent=1, sort_keys=True)
