#!/bin/bash
# tools/seed_confirm.sh <ID> <dir with patch.diff and demo.*>
# Confirms a seeded change in a scratch worktree: applies to /repo HEAD, compiles, passes the
# existing tests (guard off), demo passes without and fails with the change.
set -u
id=$1; src=$2
S=${SLOT:-}
wt=/tmp/wtc-confirm$S
export CARGO_NET_OFFLINE=true CARGO_TARGET_DIR=/tmp/wtc-confirm$S-target
if [ ! -d $wt ]; then git -C /repo worktree add -q --detach $wt HEAD || exit 9; fi
git -C $wt checkout -q --detach $(git -C /repo rev-parse HEAD) && git -C $wt checkout -q -- . || exit 9
demo=$(ls $src/demo.py $src/demo.sh 2>/dev/null | head -1)
run_demo() { case $demo in *.py) timeout 600 python3 $demo "$1";; *) timeout 600 bash $demo "$1";; esac; }
(cd $wt && cargo build --offline 2>&1 | tail -1)
cp $CARGO_TARGET_DIR/debug/cicada /tmp/wtc-cicada-base$S
run_demo /tmp/wtc-cicada-base$S > /tmp/wtc-demo-base$S.log 2>&1; base=$?
git -C $wt apply $src/patch.diff || { echo "RESULT $id patch does not apply"; exit 1; }
(cd $wt && cargo build --offline 2>&1 | tail -1)
cp $CARGO_TARGET_DIR/debug/cicada /tmp/wtc-cicada-mod$S
tests=$(cd $wt && cargo test --workspace --no-fail-fast --offline 2>&1 | grep -E "^test result" | tr '\n' ' ')
run_demo /tmp/wtc-cicada-mod$S > /tmp/wtc-demo-mod$S.log 2>&1; mod=$?
git -C $wt checkout -q -- .
echo "RESULT $id demo_base_rc=$base demo_mod_rc=$mod tests: $tests"
