#!/usr/bin/env python3
"""tools/replay_summary.py <ID> [substring]: one paragraph per replay file of a property (signature, minimal line, expected, observed)"""
import glob, json, os, sys
V = os.path.dirname(os.path.dirname(os.path.abspath(__file__)))
pid = sys.argv[1]
sub = sys.argv[2] if len(sys.argv) > 2 else ""
for f in sorted(glob.glob(os.path.join(V, "replays", pid, "*.json")), key=os.path.getmtime):
    d = json.load(open(f))
    if sub not in d["signature"]:
        continue
    c = d["cases"][0]
    det = c.get("detail", {})
    print(d["signature"], "(%d cases, seed %s)" % (d.get("n_cases", 0), d.get("seed")))
    for k in ("minimal_line", "line", "minimal_expected", "expected", "minimal_observed", "observed", "stderr"):
        if k in det:
            print("   %-17s %s" % (k, json.dumps(det[k], ensure_ascii=False)[:300]))
