#!/bin/bash
# tools/mutate_campaign.sh <slot> <seed> : one lane of the mutation campaign (lanes run side by side; results are appended
# to mutation/results.jsonl).  Each line: file, properties whose quick checks judge the mutants, number of valid mutants.
slot=$1; seed=${2:-1}
cd "$(dirname "$0")/.."
run() { SLOT=$slot python3 tools/mutate.py --file $1 --props $2 --n $3 --seed $seed > /tmp/mut-$slot.log 2>&1; }
case $slot in
  a) run src/builtins/cd.rs C09 6; run src/builtins/export.rs C09,C10 4; run src/builtins/read.rs C09 6; run src/builtins/unset.rs C09 3; run src/libs/path.rs C12,C20 5;;
  b) run src/builtins/alias.rs C17 6; run src/builtins/unalias.rs C17 3; run src/builtins/history.rs C18 8; run src/history.rs C18 6;;
  c) run src/scripting.rs C14,C15,C16 14;;
  d) run src/calculator/mod.rs C19 8; run src/completers/path.rs C20 8; run src/completers/mod.rs C20 4; run src/tools.rs C01,C18,C19,C20 8;;
  e) run src/jobc.rs C06,C07 8; run src/signals.rs C06,C07 5; run src/builtins/fg.rs C07 3; run src/builtins/bg.rs C07 3;;
  f) run src/core.rs C02,C04,C08,C11 10; run src/builtins/utils.rs C04,C08 6; run src/types.rs C04,C13,C01 8;;
  g) run src/shell.rs C10,C11,C12,C13,C17 12; run src/parsers/parser_line.rs C01,C03,C16 10; run src/execute.rs C03,C09,C16 6;;
esac
echo "lane $slot done" >> /tmp/mut-$slot.log
