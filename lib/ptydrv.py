"""Pseudo-terminal driver for interactive cicada sessions (stdlib only)."""
import errno
import fcntl
import os
import pty
import re
import select
import signal
import struct
import termios
import time

PROMPT = "vpP> "


class PtySession:
    def __init__(self, sb, binary=None, env_extra=None, cwd=None, rows=50, cols=200, watch=None, budget=20000, args=None):
        self.sb = sb
        env = sb.env(env_extra, watch, budget)
        env["PROMPT"] = PROMPT
        env["NO_EXIT_ON_CTRL_D"] = "0"
        self.buf = b""
        self.all = b""
        pid, fd = pty.fork()
        if pid == 0:
            try:
                os.chdir(cwd or sb.work)
                try:
                    import resource
                    resource.setrlimit(resource.RLIMIT_AS, (6 << 30, 6 << 30))
                except (OSError, ValueError):
                    pass
                os.execve(binary or sb.cicada, [binary or sb.cicada] + list(args or []), env)
            finally:
                os._exit(127)
        self.pid = pid
        self.fd = fd
        fcntl.ioctl(fd, termios.TIOCSWINSZ, struct.pack("HHHH", rows, cols, 0, 0))
        fl = fcntl.fcntl(fd, fcntl.F_GETFL)
        fcntl.fcntl(fd, fcntl.F_SETFL, fl | os.O_NONBLOCK)
        self.exited = None

    # ---------------------------------------------------------------- io
    def _read(self, timeout):
        try:
            r, _, _ = select.select([self.fd], [], [], timeout)
        except (OSError, ValueError):
            return False
        if not r:
            return False
        try:
            data = os.read(self.fd, 65536)
        except OSError as e:
            if e.errno in (errno.EIO, errno.EBADF):
                return False
            if e.errno == errno.EAGAIN:
                return True
            raise
        if not data:
            return False
        self.buf += data
        self.all += data
        return True

    def send(self, data):
        if isinstance(data, str):
            data = data.encode("utf-8")
        off = 0
        while off < len(data):
            try:
                off += os.write(self.fd, data[off:off + 512])
            except OSError as e:
                if e.errno == errno.EAGAIN:
                    self._read(0.05)
                    continue
                raise

    def expect(self, pattern, timeout=10.0):
        """wait until regex `pattern` (bytes) appears in the unread buffer; returns (matched, text before+match)"""
        if isinstance(pattern, str):
            pattern = pattern.encode()
        rx = re.compile(pattern, re.S)
        end = time.time() + timeout
        while True:
            m = rx.search(self.buf)
            if m:
                out = self.buf[:m.end()]
                self.buf = self.buf[m.end():]
                return True, out
            left = end - time.time()
            if left <= 0:
                return False, self.buf
            if not self._read(min(left, 0.2)):
                if not self.alive():
                    # drain
                    while self._read(0.05):
                        pass
                    m = rx.search(self.buf)
                    if m:
                        out = self.buf[:m.end()]
                        self.buf = self.buf[m.end():]
                        return True, out
                    return False, self.buf

    def wait_prompt(self, timeout=10.0):
        return self.expect(re.escape(PROMPT.encode()), timeout)

    def drain(self, quiet=0.15, maxt=2.0):
        end = time.time() + maxt
        while time.time() < end:
            if not self._read(quiet):
                break
        out = self.buf
        self.buf = b""
        return out

    def line(self, text, timeout=15.0):
        """type a line + Enter, wait for the next prompt; returns (ok, output)"""
        # a prompt left unread in the buffer, or one the line editor redraws while the typed text arrives in pieces
        # (a loaded machine), must not be taken for the prompt that follows the command: drop what is unread and
        # accept only a prompt that comes after the newline echoed for Enter
        self.buf = b""
        self.send(text + "\r")
        return self.expect(rb"\n.*?" + re.escape(PROMPT.encode()), timeout)

    # ------------------------------------------------------------- state
    def alive(self):
        if self.exited is not None:
            return False
        try:
            pid, st = os.waitpid(self.pid, os.WNOHANG)
        except ChildProcessError:
            self.exited = -1
            return False
        if pid == 0:
            return True
        self.exited = st
        return False

    def tpgid(self):
        try:
            return os.tcgetpgrp(self.fd)
        except OSError:
            return None

    def close(self):
        try:
            os.kill(self.pid, signal.SIGHUP)
        except OSError:
            pass
        # kill every process whose session is the shell's
        try:
            for p in os.listdir("/proc"):
                if not p.isdigit():
                    continue
                try:
                    with open("/proc/%s/stat" % p) as f:
                        s = f.read()
                    rp = s.rindex(")")
                    fields = s[rp + 2:].split()
                    if int(fields[3]) == self.pid and int(p) != self.pid:
                        os.kill(int(p), signal.SIGKILL)
                except (OSError, ValueError):
                    pass
        except OSError:
            pass
        try:
            os.kill(self.pid, signal.SIGKILL)
        except OSError:
            pass
        try:
            os.close(self.fd)
        except OSError:
            pass
        if self.exited is None:
            try:
                os.waitpid(self.pid, 0)
            except OSError:
                pass


def proc_stat(pid):
    try:
        with open("/proc/%d/stat" % pid) as f:
            s = f.read()
        rp = s.rindex(")")
        fields = s[rp + 2:].split()
        return {"state": fields[0], "ppid": int(fields[1]), "pgrp": int(fields[2]), "sid": int(fields[3]),
                "tpgid": int(fields[5])}
    except (OSError, ValueError):
        return None
