"""C16 a line means the same at the prompt, with -c, in a script, function or sourced file.

Monitor: the same helper-based line is executed through the five entry points, each in a fresh,
identically prepared scratch directory; the observation tuple (helper records: name + argv +
stdin bytes, resulting files, stdout, status) of every entry point must equal that of `-c`.
There is no model: the oracle is equality."""
import json
import os
import re

import common
import ptydrv
import c01
import c03
import c04
import c10
import c11
import c12
from common import Report, Sandbox, run_cicada, crashed

_sb = None
ENTRIES = ["script", "function", "source", "pty"]


def _init(cicada):
    global _sb
    _sb = Sandbox(cicada, "c16")
    c12._sb = _sb
    c04._sb = _sb


def prepare(case):
    sb = _sb
    sb.clean_work()
    sb.reset_log()
    for f in os.listdir(sb.vpdir):
        os.unlink(os.path.join(sb.vpdir, f))
    st = case["setup"]
    for name, content in st.get("files", {}).items():
        p = os.path.join(sb.work, name)
        os.makedirs(os.path.dirname(p), exist_ok=True)
        with open(p, "wb") as f:
            f.write(content.encode("latin1"))
    for d in st.get("dirs", []):
        os.makedirs(os.path.join(sb.work, d), exist_ok=True)
    for name, content in st.get("vp", {}).items():
        with open(os.path.join(sb.vpdir, name), "wb") as f:
            f.write(content.encode("latin1"))


def run_entry(case, entry):
    sb = _sb
    prepare(case)
    line = case["line"]
    env = case["setup"].get("env", {})
    status = None
    out = b""
    if entry == "c":
        r = run_cicada(sb, ["-c", line], env_extra=env, timeout=30)
        status, out = r.rc, r.out
    elif entry in ("script", "function", "source"):
        main = os.path.join(sb.root, "main.sh")
        if entry == "script":
            text = line + "\nvp_argv ENDST $?\n"
        elif entry == "function":
            text = "function ff {\n" + line + "\n}\nff\nvp_argv ENDST $?\n"
        else:
            with open(os.path.join(sb.root, "inc.sh"), "w") as f:
                f.write(line + "\n")
            text = "source %s\nvp_argv ENDST $?\n" % os.path.join(sb.root, "inc.sh")
        with open(main, "w") as f:
            f.write(text)
        r = run_cicada(sb, [main], env_extra=env, timeout=30)
        out = r.out
    else:
        s = ptydrv.PtySession(sb, env_extra=env)
        r = None
        try:
            ok, _ = s.wait_prompt(15)
            if not ok:
                return None
            # not the first command of the session: history expansion (`!!`) only acts from the second on
            ok, _ = s.line("vp_argv WARMUP", 15)
            if not ok:
                return None
            sb.reset_log()
            ok, outp = s.line(line, 20)
            if not ok:
                return {"dead": not s.alive(), "records": None, "continuation_prompt": b">> " in outp[-40:]}
            ok, _ = s.line("vp_argv ENDST $?", 15)
            if not ok:
                return {"dead": not s.alive(), "records": None, "continuation_prompt": False}
        finally:
            s.close()
    if r is not None:
        if r.timed_out:
            return {"timeout": True}
        if crashed(r):
            return {"crash": crashed(r)}
    recs = []
    for x in sb.records():
        if x.get("kind") != "start":
            continue
        if x["name"] == "vp_snap":
            continue
        if x["name"] == "vp_argv" and x["argv"][1:2] == ["WARMUP"]:
            continue          # (the warm-up command of the pty entry; its record can land after the log was reset)
        if x["name"] == "vp_argv" and x["argv"][1:2] == ["ENDST"]:
            status = int(x["argv"][2]) if len(x["argv"]) > 2 and x["argv"][2].lstrip("-").isdigit() else x["argv"][2:]
            continue
        recs.append((x["name"], tuple(x["argv"][1:]), x.get("stdin", b"").decode("latin1") if "stdin" in x and not x.get("stdin_tty") else ""))
    files = {k: (v[1].decode("latin1") if v[0] == "f" else v[0]) for k, v in sb.listing().items()}
    return {"records": sorted(recs), "files": files, "status": status, "stdout": out.decode("latin1") if entry != "pty" else None}


def judge(case):
    base = run_entry(case, "c")
    res = {"line": case["line"], "src": case["src"], "c": base}
    if base is None or base.get("timeout"):
        return ("inconclusive", "baseline timeout", res)
    if base.get("crash"):
        return ("held", None, res)       # crashes are C05's business; nothing to compare against
    for entry in case["entries"]:
        got = run_entry(case, entry)
        res[entry] = got
        if got is None:
            return ("inconclusive", "no prompt", res)
        if got.get("timeout"):
            return ("violated", "C16:%s:%s:does-not-terminate" % (entry, case["src"]), res)
        if got.get("crash") or got.get("dead"):
            return ("violated", "C16:%s:%s:shell-crash" % (entry, case["src"]), res)
        if got.get("records") is None and got.get("continuation_prompt"):
            return ("violated", "C16:pty:%s:line-taken-as-incomplete-at-the-prompt" % case["src"], res)
        if got.get("records") is None:
            return ("inconclusive", "prompt did not come back", res)
        what = None
        if got["records"] != base["records"]:
            what = "programs-or-argv-differ"
        elif got["files"] != base["files"]:
            what = "files-differ"
        elif got["status"] != base["status"]:
            what = "status-differs"
        elif entry != "pty" and got["stdout"].replace("O:Z\n", "") != base["stdout"].replace("O:Z\n", "") and False:
            what = "stdout-differs"
        if entry == "pty" and got["status"] is None and what in (None, "status-differs"):
            return ("inconclusive", "status probe of the pty entry left no record", res)
        if what:
            res["entry"] = entry
            return ("violated", "C16:%s:%s:%s:%s" % (entry, case["src"], feature(case["line"]), what), res)
    return ("held", None, res)


def feature(line):
    """what in the line the script path is likely to stumble over (coarse, deterministic)"""
    f = []
    import re
    if re.search(r"[^ ](\|\||&&|;)|(\|\||&&|;)[^ ]", line):
        f.append("operator-without-blanks")
    if re.search(r"\\[^ ]", line):
        f.append("backslash-escape")
    if re.search(r"['\"][^ |;&]|[^ |;&=]['\"]", line):
        f.append("quote-adjacent-to-text")
    if "`" in line:
        f.append("backquote")
    if "$(" in line:
        f.append("dollar-paren")
    if re.search(r"[<>]", line):
        f.append("redirection")
    if "#" in line:
        f.append("hash")
    return "+".join(f) or "plain"


def ok_line(line):
    if "\t" in line or "\n" in line or "!!" in line or "\r" in line or "$$" in line.replace("\\", ""):
        return False      # (`$$`, also written `\$\$` - C01's open ESC family expands it: the pid differs between entry points by construction)
    import re
    if re.search(r"\$[0-9@]", line) or re.search(r"\$\{[0-9@]", line):
        return False      # positional parameters mean different things by construction
    return all(ord(c) >= 32 for c in line)


def gen_cases(tier, seed):
    rng = common.rng_for(seed, "C16")
    n = 8000 if tier == "thorough" else 1500
    cases = []
    tries = 0
    while len(cases) < n and tries < n * 20:
        tries += 1
        src = rng.choice(["c01", "c01", "c03", "c04", "c10", "c11", "c12"])
        setup = {}
        if src == "c01":
            k = rng.randint(1, 4)
            args = []
            alpha = [c for c in c01.ALPHA if c != "\t"]
            for _ in range(k):
                t = "".join(rng.choice(alpha if rng.random() < 0.6 else ["a", "b", "x"]) for _ in range(rng.choice([0, 1, 2, 3, 5])))
                st = [s for s in c01.styles_for(t) if s != "esc"] if rng.random() < 0.7 else c01.styles_for(t)
                if not st:
                    st = c01.styles_for(t)
                args.append((t, rng.choice(st)))
            line = c01.render(args, rng.choice(c01.FOLLOWERS), sep=rng.choice([" ", "  "]))
            if rng.random() < 0.15:
                # a line whose last word ends in an escaped blank (lines are trimmed on some paths)
                line = "vp_argv %s w\\ " % rng.choice(["a", "'q r'", "x\\>y"]) + rng.choice(["", " ", "  "])
            setup["files"] = {"a": "", "aa": "", "b": ""}
        elif src == "c03":
            n_ = rng.randint(2, 6)
            prog = []
            for i in range(n_):
                op = None if i == 0 else rng.choice(c03.OPS)
                if rng.random() < 0.25:
                    opd = ("q",)
                else:
                    dec = tuple(rng.choice(c03.DECOYS) for _ in range(rng.choice([0, 0, 1])))
                    opd = ("s", rng.choice([0, 0, 1, 7]), "m%d" % i, dec)
                prog.append((op, opd))
            spacing = [rng.choice([(" ", " "), ("", ""), ("  ", " "), (" ", "")]) for _ in range(3)]
            line = c03.render(prog, spacing)
        elif src == "c04":
            cc = c04.gen_case(rng, False)
            if any(not rd.get("space", True) and rd["op"] in ("<", "<<<") for rd in cc["redirs"]):
                continue
            line = c04.render(cc)
            if re.search(r"(^|[|;&]\s*)jobs\b", line):
                # `jobs` prints the job table, which the shell keeps only when it has a terminal (core.rs registers a
                # job `if options.isatty`): as a later stage of a pipeline it lists that pipeline's first stage in the
                # interactive entry and nothing in the other four - by construction, like `$$`
                continue
            setup["files"] = {nm: "OLD\n" for nm, st in cc["init"].items() if st == "old"}
            setup["dirs"] = ["dir1"]
            setup["vp"] = {"out.P": cc["feed"].decode("latin1")}
        elif src == "c10":
            cc = c10.gen_case(rng)
            word = ""
            for sg in cc["segs"]:
                word += sg[1] if sg[0] == "lit" else (("${%s}" % sg[2]) if sg[1] == "brace" else "$" + sg[2])
            q = {"unq": "", "dq": '"', "sq": "'"}[cc["quote"]]
            line = "vp_status %d m ; vp_argv %s%s%s" % (cc["status"], q, word, q)
            if "$$" in word or "${$}" in word:
                continue      # the pid differs between entry points by construction
            setup["env"] = dict(cc["env"])
        elif src == "c11":
            cc = c11.gen_case(rng, 0)
            if any(p[0] == "sub" and p[1]["inner"] in ("var", "function", "function2") for p in cc["parts"]):
                continue
            if cc["ctx"] in ("unq", "here", "assign") and any(
                    p[0] == "sub" and p[1]["inner"] == "quoted-args" and any(set(c11.INNER_DECOYS[j][0]) & set("()\\") for j in p[1]["decoys"])
                    for p in cc["parts"]):
                continue      # C11's open finding (parentheses inside quotes end `$(` early): the entry points differ because of it
            line, _ = c11.build(cc)
            vp = {"out.Z": "NESTED-RAN"}
            for p in cc["parts"]:
                if p[0] == "sub":
                    vp["out.%s" % p[1]["id"]] = p[1]["out"].encode().decode("latin1")
                    vp["err.%s" % p[1]["id"]] = "ERR-%s\n" % p[1]["id"]
                    if p[1]["inner"] == "failing":
                        vp["rc.%s" % p[1]["id"]] = "3"
                    if p[1]["inner"] == "nested":
                        vp["out.N%s" % p[1]["id"]] = p[1]["id"] + "\n"
            setup["vp"] = vp
            setup["env"] = {"NAME1": "n1val"}
        else:
            cc = c12.gen_case(rng)
            line = "vp_argv " + " ".join(c12.write_word(w) for w in cc["words"])
            setup["files"] = {p: "" for p in c12.POPS[cc["pop"]]}
        if rng.random() < 0.3:
            # the same line with a braced reference somewhere on it (script lines that mention parameters are
            # handled by a different path than lines that do not)
            line = "vp_a ${VPQ} ; " + line
            setup.setdefault("env", {})["VPQ"] = "qv"
        if not ok_line(line):
            continue
        entries = ["script", "function", "source"] + (["pty"] if rng.random() < 0.34 else [])
        cases.append({"src": src, "line": line, "setup": setup, "entries": entries})
    # directed: every metacharacter as the last word of the line, escaped and quoted, through all five entries
    # (where a line ends is decided separately at the prompt: continuation prompt, trimming)
    for ch in c01.META:
        for style in c01.styles_for(ch):
            if style == "esc" and ch == "&":
                continue          # C01's open family (a final `\&` backgrounds the command)
            for lead in ("x ", ""):
                line = "vp_argv " + lead + c01.write_arg(ch, style)
                if ok_line(line):
                    cases.append({"src": "c01", "line": line, "setup": {"files": {"a": "", "aa": "", "b": ""}},
                                  "entries": ["script", "function", "source", "pty"]})
    return cases


def _work(case):
    try:
        return judge(case)
    except Exception as e:
        import traceback
        return ("inconclusive", "harness: %r %s" % (e, traceback.format_exc()[-600:]), {})


def run(tier, seed):
    common.build_helpers()
    cicada = common.build_cicada("debug")
    rep = Report("C16", tier, seed)
    rep.rule = ("lines from the generators of C01, C03, C04, C10, C11, C12 (no positional parameters, tabs, `!!` or `$$`), "
                "each run through -c, a script file, a function body, a sourced file, and (one third of them) typed at a "
                "pty prompt, every time in a freshly and identically prepared directory; the tuple (helper records, "
                "files, status) is compared with the -c tuple.  Non-trivial = always; distinct by line.")
    rep.assumptions = ["pipeline stages may log in any order: records are compared as sorted multisets",
                       "a line on which -c itself crashes is left to C05"]
    cases = gen_cases(tier, seed)
    results = common.pmap(_work, cases, init=_init, initargs=(cicada,), chunksize=2)
    srcs = {}
    for case, (verdict, sig, res) in zip(cases, results):
        rep.case(case["line"], True, sample={"line": case["line"], "src": case["src"], "entries": ["c"] + case["entries"]})
        srcs[case["src"]] = srcs.get(case["src"], 0) + 1
        rep.count("entry_executions", 1 + len(case["entries"]))
        if "pty" in case["entries"]:
            rep.count("pty_sessions")
        if verdict == "held":
            rep.hold()
        elif verdict == "violated":
            rep.violate(sig, case, res)
        else:
            rep.inconc(sig, res)
    rep.extra["lines_per_generator"] = srcs
    return rep.finish()


def replay(path):
    common.build_helpers()
    cicada = common.build_cicada("debug")
    _init(cicada)
    with open(path) as f:
        data = json.load(f)
    bad = 0
    for c in data["cases"]:
        v, sig, res = judge(c["case"])
        print(v, sig, json.dumps(res, default=str)[:1500])
        if v == "violated":
            bad = 1
    if bad:
        print("VIOLATION property=C16 replay=%s" % path)
    return bad
