"""C17 aliases replace exactly the command word, once, and can be listed and removed.

Monitor: every alias value starts with an observer program, so the argv reached through an alias
is recorded; `alias` / `alias n` output is captured through the builtin's own redirection and fed
to a fresh shell (round trip); oracle: an alias-table model."""
import json
import os
import re
import shlex

import common
from common import Report, Sandbox, run_cicada, crashed

_sb = None
# (pairs that differ only in letter case, or only in the kind of separator, are different names)
NAMES = ["ll", "g.s", "a-b", "X_1", "9z", "vp_b", "vp_c", "la", "k", "A.b-c_d", "LL", "Ll", "a.b", "a_b", "K", "x_1", ".."]      # (not `-` or `1`: with a numeric argument the line would be arithmetic, C19)
VALUES = {
    "plain": ["vp_argv", "vp_a"],
    "options": ["vp_argv -l", "vp_a --color=auto -x"],
    "blanks-dq": ['vp_argv "x y"', 'vp_a -m "two  sp"'],
    "blanks-sq": ["vp_argv 'x y'"],
    "pipe": ["vp_a p | vp_b q"],
    "other-alias": ["vp_b -o", "vp_c"],       # vp_b / vp_c are alias names too (and helpers): expanded once
    "self": None,                              # NAME='NAME -z' for NAME in vp_b, vp_c
    "equals": ["vp_argv k=v"],
    # a value with a redirection of its own (the definition is one word with the operator inside its quotes)
    "redirection": ["vp_argv a > af1", "vp_a -x 2> af2", "vp_argv b >> af1", "vp_a 2>/dev/null"],
    # values without a blank that still have to be read as shell text: a pipeline, a quoted command word
    "no-blank-pipe": ["vp_a|vp_b", "vp_a p|vp_b"],
    "quoted-command-word": ['"vp_argv"', "'vp_a'", '"vp_a" -q'],
}


def _init(cicada):
    global _sb
    _sb = Sandbox(cicada, "c17")


def define_text(name, value):
    if "'" in value:
        return 'alias %s="%s"' % (name, value.replace('"', '\\"'))
    return "alias %s='%s'" % (name, value)


def value_argvs(value, extra):
    """expected helper invocations [(name, argv[1:])] for `VALUE extra...`"""
    stages = []
    cur = []
    for tok in shlex.split(value.replace("|", " | "), posix=True):      # (no value has a quoted `|`)
        if tok == "|":
            stages.append(cur)
            cur = []
        else:
            cur.append(tok)
    cur += extra
    stages.append(cur)
    out = []
    for st in stages:
        words, skip = [], False
        for w in st:
            if skip:
                skip = False
            elif w in (">", ">>", "2>", "2>>"):
                skip = True          # the operator and its target are not arguments
            elif w.startswith(("2>", ">")) and len(w) > 2:
                pass                 # attached target
            else:
                words.append(w)
        out.append((words[0], words[1:]))
    return out


def gen_history(rng):
    ops = []
    table = {}
    n = rng.randint(3, 20)
    k = 0
    for _ in range(n):
        r = rng.random()
        if r < 0.35 or not table:
            name = rng.choice(NAMES)
            cls = rng.choice(list(VALUES))
            if cls == "self":
                name = rng.choice(["vp_b", "vp_c"])
                value = "%s -z" % name
            else:
                value = rng.choice(VALUES[cls])
            ops.append({"op": "define", "name": name, "value": value, "cls": cls})
            table[name] = (value, cls)
        elif r < 0.45:
            name = rng.choice(list(table) + [rng.choice(NAMES)])
            ops.append({"op": "unalias", "name": name})
            table.pop(name, None)
        elif r < 0.55:
            # the listing goes to a file, into a pipe, or into a command substitution: every definition each time
            ops.append({"op": "list", "k": k, "via": rng.choice(["file", "file", "pipe", "capture"])})
            k += 1
        elif r < 0.62:
            ops.append({"op": "show", "name": rng.choice(list(table) + [rng.choice(NAMES)]), "k": k})
            k += 1
        else:
            name = rng.choice(list(table))
            pos = rng.choice(["start", "after-pipe", "after-semicolon", "after-and", "non-first-word", "start", "every-stage", "for-list", "after-own-definition", "after-quoted-pipe-word"])
            op = {"op": "use", "name": name, "pos": pos, "k": k, "args": [rng.choice(["u1", "-v", "w w"] + ([rng.choice(sorted(table))] if table else [])) for _ in range(rng.randint(0, 2))]}
            if pos == "for-list":
                # the words of a `for` list are data: the first of them is not a command word either
                op["args"] = [a for a in op["args"] if " " not in a]
            if pos == "every-stage":
                # a pipeline of 2..4 stages whose heads are all aliases (values without a pipe), each with its own words
                cands = [n for n in table if "|" not in table[n][0]]
                if not cands:
                    continue
                op["stages"] = [(rng.choice(cands), ["s%d" % i] if rng.random() < 0.7 else []) for i in range(rng.randint(2, 4))]
            ops.append(op)
            k += 1
    ops.append({"op": "list", "k": k})
    return ops


def judge(case, roundtrip=True):
    sb = _sb
    sb.clean_work()
    sb.reset_log()
    ops = case["ops"]
    lines = []
    table = {}
    expect = []      # per op expectations
    for op in ops:
        o = op["op"]
        if o == "define":
            lines.append(define_text(op["name"], op["value"]))
            table[op["name"]] = op["value"]
        elif o == "unalias":
            lines.append("unalias %s 2> /dev/null" % op["name"])
            table.pop(op["name"], None)
        elif o == "list":
            via = op.get("via", "file")
            if via == "pipe":
                lines.append("alias | vp_io L%d > /dev/null 2> /dev/null" % op["k"])
            elif via == "capture":
                lines.append('vp_argv L%d "$(alias)"' % op["k"])
            else:
                lines.append("alias > list%d.txt" % op["k"])
            expect.append(("list", op["k"], dict(table), via))
        elif o == "show":
            lines.append("alias %s > show%d.txt 2> /dev/null" % (op["name"], op["k"]))
            expect.append(("show", op["k"], op["name"], table.get(op["name"])))
        elif o == "use":
            name, args, k = op["name"], op["args"], op["k"]
            argtxt = "".join(" " + shlex.quote(a) for a in args)
            mark = "vp_status 0 U%d" % k
            if op["pos"] == "start":
                lines.append(mark)
                lines.append("%s%s" % (name, argtxt))
                exp = value_argvs(table[name], args)
            elif op["pos"] == "after-pipe":
                lines.append(mark)
                lines.append("vp_a H%d | %s%s" % (k, name, argtxt))
                exp = [("vp_a", ["H%d" % k])] + value_argvs(table[name], args)
            elif op["pos"] == "after-semicolon":
                lines.append(mark)
                lines.append("vp_a H%d ; %s%s" % (k, name, argtxt))
                exp = [("vp_a", ["H%d" % k])] + value_argvs(table[name], args)
            elif op["pos"] == "after-and":
                lines.append(mark)
                lines.append("vp_a H%d && %s%s" % (k, name, argtxt))
                exp = [("vp_a", ["H%d" % k])] + value_argvs(table[name], args)
            elif op["pos"] == "after-own-definition":
                # the definition (written again, with its quotes) and the use share one line, joined by ; or &&
                lines.append(mark)
                lines.append("%s %s %s%s" % (define_text(name, table[name]), ";" if k % 2 else "&&", name, argtxt))
                exp = value_argvs(table[name], args)
            elif op["pos"] == "after-quoted-pipe-word":
                # a non-first word that follows an argument which is a quoted or escaped `|`: still not a command word
                pw = ["'|'", '"|"', "\\|"][k % 3]
                lines.append(mark)
                lines.append("vp_argv N%d %s %s%s" % (k, pw, name, argtxt))
                exp = [("vp_argv", ["N%d" % k, "|", name] + args)]
            elif op["pos"] == "for-list":
                lines.append(mark)
                lines.append("for w in %s%s" % (name, argtxt))
                lines.append("    vp_argv F%d $w" % k)
                lines.append("done")
                exp = [("vp_argv", ["F%d" % k, w]) for w in [name] + args]
            elif op["pos"] == "every-stage":
                lines.append(mark)
                lines.append(" | ".join(n + "".join(" " + a for a in a_) for n, a_ in op["stages"]))
                exp = []
                for n, a_ in op["stages"]:
                    exp += value_argvs(table[n], list(a_))
            else:
                lines.append(mark)
                lines.append("vp_argv N%d %s%s" % (k, name, argtxt))
                exp = [("vp_argv", ["N%d" % k, name] + args)]
            expect.append(("use", k, op, exp))
    script = os.path.join(sb.root, "h.sh")
    text = "\n".join(lines) + "\n"
    with open(script, "w") as f:
        f.write(text)
    r = run_cicada(sb, [script], timeout=60.0)
    res = {"script": text, "stderr": r.err.decode("utf-8", "replace")[-300:]}
    if r.timed_out:
        if r.diag and r.diag["kind"] == "spin":
            return ("violated", "C17:alias-expansion-does-not-terminate", res)
        return ("inconclusive", "timeout", res)
    if crashed(r):
        return ("violated", "C17:shell-crash", res)
    # group records by use marker
    groups = {}
    listed = {}
    cur = None
    for x in sb.records():
        if x["kind"] != "start":
            continue
        if x["name"] in ("vp_io", "vp_argv") and x["argv"][1:2] and re.match(r"L\d+$", x["argv"][1]):
            if x["name"] == "vp_io":
                listed[int(x["argv"][1][1:])] = x.get("stdin", b"").decode("utf-8", "replace")
            else:
                listed[int(x["argv"][1][1:])] = "\n".join(x["argv"][2:]) + "\n"
            continue
        if x["name"] == "vp_status" and x["argv"][2:3] and x["argv"][2].startswith("U"):
            cur = int(x["argv"][2][1:])
            groups[cur] = []
        elif cur is not None:
            groups[cur].append((x["name"], x["argv"][1:]))
    final_table = None
    for e in expect:
        if e[0] == "use":
            _, k, op, exp = e
            got = groups.get(k, [])
            # stages of one pipeline may log in any order
            if sorted(map(repr, got)) != sorted(map(repr, exp)):
                res["use"], res["expected"], res["observed"] = op, exp, got
                cls = next((o["cls"] for o in reversed(ops[:ops.index(op)]) if o["op"] == "define" and o["name"] == op["name"]), "?")
                return ("violated", "C17:use:pos=%s:value=%s:wrong-command-or-argv" % (op["pos"], cls), res)
        elif e[0] == "list":
            _, k, tbl, via = e
            if via == "file":
                p = os.path.join(sb.work, "list%d.txt" % k)
                content = open(p).read() if os.path.exists(p) else ""
                final_table = (tbl, content)
            else:
                content = listed.get(k, "")
            got = parse_listing(content)
            if got != tbl:
                res["listing"], res["expected_table"], res["via"] = content, tbl, via
                return ("violated", "C17:list:listing-differs-from-table" + ("" if via == "file" else ":into-" + via), res)
        elif e[0] == "show":
            _, k, name, val = e
            p = os.path.join(sb.work, "show%d.txt" % k)
            content = open(p).read() if os.path.exists(p) else ""
            want = "alias %s='%s'\n" % (name, val) if val is not None else ""
            if parse_listing(content) != ({name: val} if val is not None else {}):
                res["show"], res["want"] = content, want
                return ("violated", "C17:show-one:%s" % ("defined" if val is not None else "undefined"), res)
    # round trip: the final listing recreates the table in a fresh shell
    if roundtrip and final_table and final_table[0]:
        tbl, content = final_table
        with open(script, "w") as f:
            f.write(content + "alias > again.txt\n")
        r2 = run_cicada(sb, [script], timeout=30.0)
        p = os.path.join(sb.work, "again.txt")
        again = open(p).read() if os.path.exists(p) else ""
        if parse_listing(again) != tbl:
            res["listing"], res["after_round_trip"] = content, again
            classes = sorted({o["cls"] for o in ops if o["op"] == "define" and tbl.get(o["name"]) == o["value"]})
            bad = [n for n in tbl if parse_listing(again).get(n) != tbl[n]]
            badcls = sorted({o["cls"] for o in ops if o["op"] == "define" and o["name"] in bad and tbl.get(o["name"]) == o["value"]})
            return ("violated", "C17:round-trip:value=%s" % "+".join(badcls), res)
    return ("held", None, res)


def parse_listing(content):
    out = {}
    for line in content.split("\n"):
        if not line.startswith("alias "):
            continue
        body = line[6:]
        if "=" not in body:
            continue
        name, val = body.split("=", 1)
        if len(val) >= 2 and val[0] == val[-1] and val[0] in "'\"":
            val = val[1:-1]
        out[name] = val
    return out


def _work(case):
    try:
        return judge(case)
    except Exception as e:
        import traceback
        return ("inconclusive", "harness: %r %s" % (e, traceback.format_exc()[-500:]), {})


def run(tier, seed):
    common.build_helpers()
    cicada = common.build_cicada("debug")
    rep = Report("C17", tier, seed)
    rep.rule = ("random histories (<=20 ops) of define / redefine / unalias / list / `alias n` / use over names from "
                "[A-Za-z0-9_.-]+ (two of them also names of observer programs) and values with options, blanks quoted "
                "with the other quote kind, a pipe, another alias name, or their own name; uses at line start, after |, "
                "after ;, after &&, as a non-first word, as the first word of a `for` list and right behind their own definition on one line; listings go to a file, a pipe or a "
                "command substitution; the final listing is fed to a fresh shell.  "
                "Non-trivial = at least one use or listing; distinct by history.")
    rep.assumptions = ["alias-table model in lib/c17.py; expected argv = shell-split value + the remaining words"]
    rng = common.rng_for(seed, "C17")
    n = 12000 if tier == "thorough" else 1500
    cases = [{"ops": gen_history(rng)} for _ in range(n)]
    results = common.pmap(_work, cases, init=_init, initargs=(cicada,), chunksize=4)
    pos = {}
    for case, (verdict, sig, res) in zip(cases, results):
        rep.case(json.dumps(case, sort_keys=True), True, sample={"script": res.get("script")})
        for op in case["ops"]:
            if op["op"] == "use":
                pos[op["pos"]] = pos.get(op["pos"], 0) + 1
            rep.count("op_" + op["op"])
        if verdict == "held":
            rep.hold()
        elif verdict == "violated":
            rep.violate(sig, case, res)
        else:
            rep.inconc(sig, res)
    rep.extra["use_positions_exercised"] = pos
    return rep.finish()


def replay(path):
    common.build_helpers()
    cicada = common.build_cicada("debug")
    _init(cicada)
    with open(path) as f:
        data = json.load(f)
    bad = 0
    for c in data["cases"]:
        v, sig, res = judge(c["case"])
        print(v, sig, json.dumps(res, default=str)[:1200])
        if v == "violated":
            bad = 1
    if bad:
        print("VIOLATION property=C17 replay=%s" % path)
    return bad
