"""C11 command substitution splices the command's output in literally, exactly once.

Monitor: the inner command is the observer vp_out (logs one record per run = exactly-once
evidence, copies a prepared file to stdout, another to stderr, exits with a prepared code); the
outer observer vp_argv / vp_io records what the word became; vp_snap before/after shows the
shell's state.  Oracle: prefix + output-without-trailing-newlines + suffix."""
import json
import os
import re

import common
from common import Report, Sandbox, run_cicada, crashed

_sb = None

OUTPUTS = {
    "plain": ["out", "two words", "x"],
    "dollar-digit": ["a$1b", "$1", "cost $5"],
    "dollar-brace": ["${x}", "a${HOME}b"],
    "dollar-name": ["$HOME", "a$USERb", "$NAME1"],
    "backslash": ["a\\b", "\\1", "\\\\", "x\\"],
    "star": ["*", "a*"],
    "braces": ["{a,b}", "x{1,2}", "{1..3}", "p{2..4}q"],       # (lists and ranges: the range pass runs after the substitutions)
    "regex-special": ["(.+)", "[a]", "a|b", "^$"],
    "interior-newline": ["l1\nl2", "a\n\nb"],
    "trailing-newlines": ["t\n", "t\n\n\n"],
    "leading-blanks": ["  lead", " x"],
    "trailing-blanks": ["trail  "],
    "nested-syntax": ["$(vp_out Z)", "`vp_out Z`"],
    "operators": ["a > b", "x | y", "p ; q", "m &"],
    "empty": [""],
    "quotes": ["it's", 'say "hi"'],
    "unicode": ["é中"],
    # more than a pipe buffer, less than the longest single argument execve accepts (written out by expand_out)
    "large": ["@LARGE90K"],
}
BIGERR = "E" * 100000 + "\n"


def expand_out(s):
    return ("B" + "0123456789" * 9000) if s == "@LARGE90K" else s


def _init(cicada):
    global _sb
    _sb = Sandbox(cicada, "c11")
    for n in ("a", "aa", "b"):
        open(os.path.join(_sb.work, n), "w").close()


def strip_nl(s):
    return s.rstrip("\n")


def unq_norm(s):
    return " ".join(s.replace("\n", " ").split())


# (written, received) - the first five are safe inside an outer double quote too
INNER_DECOYS = [("'x)'", "x)"), ("'('", "("), ("'tail\\'", "tail\\"), ("\\)", ")"), ("'a b'", "a b"), ('"y("', "y("), ('"p)q"', "p)q"), ("'a\"b'", 'a"b')]


def inner_text(sub):
    k = sub["inner"]
    i = sub["id"]
    if k == "simple":
        return "vp_out %s" % i
    if k == "pipeline":
        return "vp_out %s | vp_st flt 0" % i
    if k == "failing":
        return "vp_out %s" % i       # rc file non-zero
    if k == "var":
        return "vp_out $KID%s" % i   # the inner command must see the shell variable
    if k == "builtin":
        return "alias zz"
    if k == "builtin-pipeline":
        return "alias zz | vp_st flt 0 | vp_st flt 0"
    if k == "pipeline-into-builtin":
        return "vp_out %s | alias zz" % i          # the last stage of the inner pipeline is a builtin (run in a child)
    if k == "quoted-args":
        # further arguments of the inner command that look like the end of the substitution or of a quote
        return "vp_out %s %s" % (i, " ".join(INNER_DECOYS[j][0] for j in sub["decoys"]))
    if k == "nested":
        # the inner command's argument comes from a substitution of the other spelling (out.N<id> holds <id>)
        return ("vp_out `vp_out N%s`" % i) if sub["form"] == "dollar" else ("vp_out $(vp_out N%s)" % i)
    if k in ("function", "function2"):
        # a function defined by a sourced file; its body runs the observer (function2: a second command after it)
        return "fn%s" % i
    if k == "notfound":
        return "vp_nonexistent_cmd"
    if k == "unparsable":
        return "vp_out %s >" % i
    raise ValueError(k)


def sub_output(sub):
    if sub["inner"] in ("builtin", "builtin-pipeline", "pipeline-into-builtin"):
        return "alias zz='vp_b'\n"
    if sub["inner"] in ("notfound", "unparsable"):
        return ""
    if sub["inner"] == "function2":
        return expand_out(sub["out"]) + "second line\n"
    return expand_out(sub["out"])


def build(case):
    """returns line, expected word"""
    parts = case["parts"]      # list of ('lit', text) | ('sub', subdict)
    word = ""
    exp = ""
    for p in parts:
        if p[0] == "lit":
            word += p[1]
            exp += p[1]
        else:
            sub = p[1]
            it = inner_text(sub)
            word += ("$(%s)" % it) if sub["form"] == "dollar" else ("`%s`" % it)
            exp += strip_nl(sub_output(sub))
    ctx = case["ctx"]
    pre = "alias zz=vp_b ; " if any(p[0] == "sub" and "builtin" in p[1]["inner"] for p in parts) else ""
    for p in parts:
        if p[0] == "sub" and p[1]["inner"] == "var":
            pre += "KID%s=%s ; " % (p[1]["id"], p[1]["id"])
    if any(p[0] == "sub" and p[1]["inner"] in ("function", "function2") for p in parts):
        pre += "source $VP_DIR/fns.sh ; "
    if ctx == "unq":
        line = "vp_argv %s" % word
    elif ctx == "dq":
        line = 'vp_argv "%s"' % word
    elif ctx == "assign":
        line = 'V=%s ; vp_argv "$V"' % word
    elif ctx == "assign-dq":
        line = 'V="%s" ; vp_argv "$V"' % word
    elif ctx == "here":
        line = "vp_io H <<< %s" % word
    else:
        raise ValueError(ctx)
    return pre + "vp_snap B ; " + line + " ; vp_snap A", exp


def run_case(case):
    sb = _sb
    sb.reset_log()
    for f in os.listdir(sb.vpdir):
        os.unlink(os.path.join(sb.vpdir, f))
    with open(os.path.join(sb.vpdir, "out.Z"), "w") as f:
        f.write("NESTED-RAN")
    nsub = 0
    for p in case["parts"]:
        if p[0] == "sub":
            sub = p[1]
            nsub += 1
            with open(os.path.join(sb.vpdir, "out.%s" % sub["id"]), "wb") as f:
                f.write(expand_out(sub["out"]).encode())
            with open(os.path.join(sb.vpdir, "err.%s" % sub["id"]), "wb") as f:
                # (optionally more than a pipe buffer on the inner command's stderr)
                f.write(("ERR-%s\n" % sub["id"] + (BIGERR if sub.get("bigerr") else "")).encode())
            if sub.get("late_err"):
                # the inner command closes its stdout first and writes its stderr 150 ms later
                open(os.path.join(sb.vpdir, "late.%s" % sub["id"]), "w").close()
            if sub["inner"] == "failing":
                with open(os.path.join(sb.vpdir, "rc.%s" % sub["id"]), "w") as f:
                    f.write("3")
            if sub["inner"] == "nested":
                with open(os.path.join(sb.vpdir, "out.N%s" % sub["id"]), "w") as f:
                    f.write(sub["id"] + "\n")
            if sub["inner"] in ("function", "function2"):
                with open(os.path.join(sb.vpdir, "fns.sh"), "a") as f:
                    f.write("function fn%s {\n    vp_out %s\n%s}\n" % (
                        sub["id"], sub["id"], "    vp_out X%s\n" % sub["id"] if sub["inner"] == "function2" else ""))
                with open(os.path.join(sb.vpdir, "out.X%s" % sub["id"]), "w") as f:
                    f.write("second line\n")
    line, exp = build(case)
    r = run_cicada(sb, ["-c", line], timeout=20.0, budget=3000, env_extra={"NAME1": "n1val"})
    return line, exp, r, sb.records()


def symptom(case, exp, r, recs):
    if b"step budget exceeded" in r.err:
        return "substitution-does-not-terminate"
    if r.timed_out:
        if r.diag and (r.diag["kind"] == "spin" or b"cicada:" in r.err):
            return "substitution-does-not-terminate"
        if r.diag and r.diag["kind"] == "blocked" and r.diag["procs"] and all(p["cpu_ticks"] == 0 for p in r.diag["procs"]):
            return "substitution-deadlocks"       # every process of the tree asleep with no CPU time: nothing will ever move
        return "TIMEOUT"
    if crashed(r):
        return "shell-crash"
    ctx = case["ctx"]
    subs = [p[1] for p in case["parts"] if p[0] == "sub"]
    # exactly once
    for sub in subs:
        if sub["inner"] in ("builtin", "builtin-pipeline", "notfound", "unparsable"):
            continue
        n = sum(1 for x in recs if x["name"] == "vp_out" and x["kind"] == "start" and x["argv"][1:2] == [sub["id"]])
        want = 1
        if n != want:
            return "inner-command-ran-%d-times" % n
        if sub["inner"] == "quoted-args":
            got = [x["argv"][2:] for x in recs if x["name"] == "vp_out" and x["kind"] == "start" and x["argv"][1:2] == [sub["id"]]][0]
            if got != [INNER_DECOYS[j][1] for j in sub["decoys"]]:
                return "inner-command-received-other-arguments"
    if any(x["name"] == "vp_out" and x["argv"][1:2] == ["Z"] for x in recs):
        return "output-text-was-executed"
    outer = [x for x in recs if x["name"] in ("vp_argv", "vp_io")]
    if len(outer) != 1:
        return "outer-command-ran-%d-times" % len(outer)
    if ctx == "here":
        got = outer[0]["stdin"].decode("utf-8", "replace")
        if unq_norm(got) != unq_norm(exp):
            return "wrong-text"
    else:
        got = outer[0]["argv"][1:]
        if ctx in ("dq", "assign-dq"):
            if got != [exp]:
                if len(got) != 1:
                    return "not-a-single-argument"
                if got[0].strip(" \n") == exp.strip(" \n"):
                    return "leading-or-trailing-blanks-lost"
                return "wrong-text"
        elif ctx == "assign":
            if len(got) != 1 or unq_norm(got[0]) != unq_norm(exp):
                return "wrong-text"
        else:
            if unq_norm(" ".join(got)) != unq_norm(exp):
                return "wrong-text"
    # inner stderr reaches the driver's stderr
    for sub in subs:
        if sub["inner"] in ("simple", "pipeline", "failing", "var", "nested", "quoted-args", "function", "function2"):
            if ("ERR-%s\n" % sub["id"]).encode() not in r.err:
                return "inner-stderr-lost"
    nbig = sum(1 for sub in subs if sub.get("bigerr"))
    if nbig and r.err.count(b"E") < nbig * (len(BIGERR) - 1):
        return "inner-stderr-truncated"
    for sub in subs:
        if sub["inner"] in ("notfound", "unparsable") and b"cicada" not in r.err:
            return "no-diagnostic"
    # shell state unaffected
    snaps = {x["argv"][1]: x for x in recs if x["name"] == "vp_snap" and len(x["argv"]) > 1}
    if "A" not in snaps or "B" not in snaps:
        return "shell-stopped-working"
    if sorted(snaps["A"]["pfds"]) != sorted(snaps["B"]["pfds"]):
        return "shell-descriptors-changed"
    if snaps["A"]["cwd"] != snaps["B"]["cwd"]:
        return "shell-cwd-changed"
    return None


def _counterfactual(cf):
    """the verdict of the case with the known trigger taken out, if that still fails (None if it holds or cannot be decided)"""
    v = judge(cf)
    if v[0] == "violated":
        v[2]["note"] = "signed on the case without the trigger of the listed finding, which fails as well"
        return v
    return None


def judge_failures(case):
    """a script in which many substitutions fail (inner text that cannot be parsed, inner commands that do not exist) and a
    good one follows: the failures must leave nothing behind that keeps the good one from running"""
    sb = _sb
    sb.reset_log()
    for f in os.listdir(sb.vpdir):
        os.unlink(os.path.join(sb.vpdir, f))
    with open(os.path.join(sb.vpdir, "out.G"), "w") as f:
        f.write("good\n")
    bad = {"unparsable": "$(vp_out G >)", "notfound": "$(vp_nonexistent_cmd)", "backquote-unparsable": "`vp_out G >`"}[case["bad"]]
    lines = ["vp_argv B%d x%sy" % (i, bad) for i in range(case["n"])] + ["vp_argv LAST $(vp_out G)", 'vp_argv LAST2 "`vp_out G`"']
    path = os.path.join(sb.root, "fails.sh")
    with open(path, "w") as f:
        f.write("\n".join(lines) + "\n")
    r = run_cicada(sb, [path], timeout=120.0, budget=0)
    recs = sb.records()
    res = {"script_head": lines[:2], "n": case["n"], "stderr": r.err.decode("utf-8", "replace")[-300:]}
    if r.timed_out:
        return ("inconclusive", "timeout", res)
    if crashed(r):
        return ("violated", "C11:after-failed-substitutions:shell-crash", res)
    last = [x["argv"][1:] for x in recs if x["name"] == "vp_argv" and x["argv"][1:2] and x["argv"][1].startswith("LAST")]
    res["observed"] = last
    if last != [["LAST", "good"], ["LAST2", "good"]]:
        return ("violated", "C11:after-failed-substitutions:%s:a-later-substitution-does-not-work" % case["bad"], res)
    ngood = sum(1 for x in recs if x["name"] == "vp_out" and x["argv"][1:2] == ["G"])
    if case["bad"] == "notfound" and ngood != 2:
        return ("violated", "C11:after-failed-substitutions:inner-command-ran-%d-times" % ngood, res)
    return ("held", None, res)


def judge(case):
    if case.get("kind") == "failures-then-good":
        return judge_failures(case)
    line, exp, r, recs = run_case(case)
    sym = symptom(case, exp, r, recs)
    res = {"line": line, "expected": exp[:300], "observed": [[a[:300] for a in x["argv"][1:]] for x in recs if x["name"] == "vp_argv"],
           "stderr": r.err.decode("utf-8", "replace")[-300:]}
    if sym is None:
        return ("held", None, res)
    if sym == "TIMEOUT":
        return ("inconclusive", "timeout", res)
    subs = [p for p in case["parts"] if p[0] == "sub"]
    parts0 = case["parts"]
    # known mechanisms outside substitution proper, decided on the shape of the case - and on the counterfactual: the same
    # case without the shape must hold, otherwise something else is (also) wrong and that is what gets signed
    if case["ctx"] in ("unq", "here", "assign") and any(
            p[1]["inner"] == "quoted-args" and any(set(INNER_DECOYS[j][0]) & set("()\\") for j in p[1]["decoys"]) for p in subs):
        # outside double quotes the *line* tokenizer finds the end of `$(...)` by counting parentheses without
        # looking at quotes or escapes inside it (inside double quotes find_matching_paren does it properly)
        safe = [j for j in range(len(INNER_DECOYS)) if not (set(INNER_DECOYS[j][0]) & set("()\\"))]
        cf = dict(case, parts=[(k, dict(v, decoys=[j if j in safe else safe[j % len(safe)] for j in v["decoys"]]) if k == "sub" and v.get("decoys") else v)
                               for k, v in case["parts"]])
        v2 = _counterfactual(cf)
        if v2 is not None:
            return v2
        return ("violated", "C11:outside-double-quotes:inner-command-text-with-quoted-or-escaped-parenthesis-or-backslash:%s" % sym, res)
    if parts0[0][0] == "sub" and parts0[0][1]["form"] == "backquote" and len(parts0) > 1 and case["ctx"] in ("unq", "here", "assign"):
        # the tokenizer takes a word that *starts* with a backquote as a whole-token substitution and
        # glues the text after the closing backquote onto the command
        cf = dict(case, parts=[(parts0[0][0], dict(parts0[0][1], form="dollar"))] + list(parts0[1:]))
        v2 = _counterfactual(cf)
        if v2 is not None:
            return v2
        return ("violated", "C11:backquote:word-starts-with-backquote-and-continues:%s" % sym, res)
    if case["ctx"] == "unq" and any(p[1]["cls"] == "operators" for p in subs):
        return ("violated", "C11:unq:output-with-operator-characters-is-reread-as-syntax:%s" % sym, res)
    # single substitution alone, same context, with neutral surrounding text
    for p in subs:
        for parts in ([p], [("lit", "p"), p, ("lit", "s")]):
            c2 = dict(case, parts=parts)
            l2, e2, r2, recs2 = run_case(c2)
            s2 = symptom(c2, e2, r2, recs2)
            if s2 and s2 != "TIMEOUT":
                res["minimal_line"] = l2
                sub = p[1]
                return ("violated", "C11:%s:%s:inner=%s:output=%s%s:%s%s" % (
                    sub["form"], case["ctx"], sub["inner"], sub["cls"], ("+large-stderr" if sub.get("bigerr") else "") + ("+stderr-after-stdout-closed" if sub.get("late_err") else ""), s2,
                    "" if len(parts) == 1 else ":with-affixes"), res)
    forms = "+".join(sorted({p[1]["form"] for p in subs}))
    return ("violated", "C11:%s:%s:several-substitutions-in-one-word(%d):%s" % (forms, case["ctx"], min(len(subs), 2), sym), res)


def gen_case(rng, k):
    nsub = rng.choice([1, 1, 1, 2, 2, 3])
    parts = []
    lits = ["", "", "pre", "x-", "/", "=", "a.b", ":"]
    for i in range(nsub):
        lit = rng.choice(lits)
        if lit:
            parts.append(("lit", lit))
        cls = rng.choice(list(OUTPUTS))
        if cls == "large" and any(p[0] == "sub" and p[1]["cls"] == "large" for p in parts):
            cls = "plain"        # two of them in one word exceed what execve accepts for a single argument
        inner = rng.choice(["simple"] * 6 + ["pipeline", "failing", "var", "builtin", "builtin-pipeline", "notfound", "unparsable", "nested", "nested", "quoted-args", "quoted-args", "function", "function2", "pipeline-into-builtin"])
        parts.append(("sub", {"form": rng.choice(["dollar", "backquote"]), "inner": inner, "cls": cls,
                              "out": rng.choice(OUTPUTS[cls]), "id": "K%d" % i}))
        if inner in ("simple", "pipeline", "failing", "var") and rng.random() < 0.06:
            parts[-1][1]["bigerr"] = True
        elif inner in ("simple", "failing", "var") and rng.random() < 0.04:
            parts[-1][1]["late_err"] = True
    lit = rng.choice(lits)
    if lit:
        parts.append(("lit", lit))
    ctx = rng.choice(["unq", "unq", "dq", "dq", "assign", "assign-dq", "here"])
    if ctx in ("assign", "assign-dq"):
        # the value is read back through "$V": a value holding $(...) text is the business of C13
        for p in parts:
            if p[0] == "sub" and p[1]["cls"] == "nested-syntax":
                p[1]["cls"], p[1]["out"] = "plain", "out"
    for p in parts:
        if p[0] == "sub" and p[1]["inner"] == "quoted-args":
            # inside an outer double quote only single-quoted / escaped decoys (a nested double quote closes the outer one
            # for cicada's tokenizer; that is C01's ground)
            pool = range(5) if ctx in ("dq", "assign-dq") else range(len(INNER_DECOYS))
            p[1]["decoys"] = [rng.choice(list(pool)) for _ in range(rng.randint(1, 2))]
    return {"parts": parts, "ctx": ctx}


def _work(case):
    try:
        return judge(case)
    except Exception as e:
        import traceback
        return ("inconclusive", "harness: %r %s" % (e, traceback.format_exc()[-500:]), {})


def run(tier, seed):
    common.build_helpers()
    cicada = common.build_cicada("debug")
    rep = Report("C11", tier, seed)
    rep.rule = ("1..3 substitutions ($() or backquotes) per word with literal text around them, in unquoted / double-quoted "
                "/ assignment / here-string context; inner commands: observer vp_out (simple, in a pipeline, failing, "
                "named through a shell variable, run by a function (one command, two commands), with quoted arguments containing ) ( \\ and quotes, containing a substitution of the other spelling), a builtin, a not-found and an unparsable command (also 20..60 of them in one shell before a good one); output texts from "
                "18 classes ($1, ${x}, $NAME, backslashes, *, braces, regex-special, interior/trailing newlines, "
                "leading/trailing blanks, nested substitution syntax, operators, quotes, empty, unicode, 90 KB = more than a pipe buffer); 6% of the inner commands also write 100 KB to stderr (all of it has to arrive), 4% close their stdout and write their stderr 150 ms later.  Non-trivial "
                "= always; distinct by full case.")
    rep.assumptions = ["unquoted results are compared modulo blank/newline runs (field splitting unspecified)",
                       "3000 rewrite steps for <=3 substitutions means non-termination"]
    rng = common.rng_for(seed, "C11")
    n = 60000 if tier == "thorough" else 10000
    cases = [gen_case(rng, k) for k in range(n)]
    # one shell in which 20..60 substitutions fail before a good one
    for bad in ("unparsable", "notfound", "backquote-unparsable"):
        for nfail in ((20, 33, 40, 60) if tier == "thorough" else (33, 45)):
            cases.append({"kind": "failures-then-good", "bad": bad, "n": nfail, "parts": [], "ctx": "script"})
    results = common.pmap(_work, cases, init=_init, initargs=(cicada,), chunksize=8)
    cls = {}
    for case, (verdict, sig, res) in zip(cases, results):
        rep.case(json.dumps(case, sort_keys=True), True, sample={"line": res.get("line"), "expected": res.get("expected")})
        for p in case["parts"]:
            if p[0] == "sub":
                cls[p[1]["cls"]] = cls.get(p[1]["cls"], 0) + 1
                rep.count("inner_" + p[1]["inner"])
        rep.count("ctx_" + case["ctx"])
        if verdict == "held":
            rep.hold()
        elif verdict == "violated":
            rep.violate(sig, case, res)
        else:
            rep.inconc(sig, res)
    rep.extra["output_classes_exercised"] = cls
    return rep.finish()


def replay(path):
    common.build_helpers()
    cicada = common.build_cicada("debug")
    _init(cicada)
    with open(path) as f:
        data = json.load(f)
    bad = 0
    for c in data["cases"]:
        case = c["case"]
        case["parts"] = [tuple(p) for p in case.get("parts", [])]
        v, sig, res = judge(case)
        print(v, sig, json.dumps(res, default=str)[:600])
        if v == "violated":
            bad = 1
    if bad:
        print("VIOLATION property=C11 replay=%s" % path)
    return bad
