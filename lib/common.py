"""Shared machinery of the cicada runtime monitors: builds, drivers, event log,
verdicts, known findings, evidence.  Standard library only."""
import fcntl
import hashlib
import json
import os
import random
import shutil
import signal
import subprocess
import sys
import tempfile
import time

VERIF = os.path.dirname(os.path.dirname(os.path.abspath(__file__)))
REPO = os.environ.get("VERIF_REPO", "/repo")
# (VERIF_REPO / VERIF_CACHE / VERIF_EVIDENCE are for tools/seed_try.sh only, which judges a patched scratch
# worktree without touching /repo, the build cache or the evidence files; registered commands never set them)
CACHE = os.environ.get("VERIF_CACHE") or os.path.join(VERIF, ".cache")
HELPERS = os.path.join(CACHE, "helpers")
SCRATCH = os.path.join(CACHE, "scratch")
EVIDENCE = os.environ.get("VERIF_EVIDENCE") or os.path.join(VERIF, "evidence")
REPLAYS = os.path.join(VERIF, "replays")
NPROC = min(16, os.cpu_count() or 4)

HELPER_NAMES = ["vp_argv", "vp_a", "vp_b", "vp_c", "vp_d", "vp_e", "vp_f",
                "vp_status", "vp_cond", "vp_out", "vp_io", "vp_st", "vp_snap",
                "vp_job"]

BUILD_ENV = {"CARGO_NET_OFFLINE": "true"}
# dependencies (regex, pest, sqlite) optimised, cicada itself a plain debug build
DEP_OPT = ["--config", 'profile.dev.package."*".opt-level=2']


class InfraError(Exception):
    pass


# --------------------------------------------------------------------- builds

def _lock(name):
    os.makedirs(CACHE, exist_ok=True)
    f = open(os.path.join(CACHE, name + ".lock"), "w")
    fcntl.flock(f, fcntl.LOCK_EX)
    return f


def build_helpers():
    lk = _lock("helpers")
    try:
        src = os.path.join(VERIF, "helpers", "vp.c")
        os.makedirs(HELPERS, exist_ok=True)
        out = os.path.join(HELPERS, "vp")
        if not os.path.exists(out) or os.path.getmtime(out) < os.path.getmtime(src):
            tmp = out + ".tmp%d" % os.getpid()
            r = subprocess.run(["gcc", "-O1", "-static", "-o", tmp, src],
                               capture_output=True, text=True)
            if r.returncode != 0:
                raise InfraError("gcc failed: " + r.stderr)
            os.replace(tmp, out)
        for n in HELPER_NAMES:
            p = os.path.join(HELPERS, n)
            if not os.path.islink(p):
                try:
                    os.symlink("vp", p)
                except FileExistsError:
                    pass
    finally:
        lk.close()
    return HELPERS


def _cargo(args, target, extra_env=None, cwd=None, toolchain=None, rustflags="--cfg cicada_verif"):
    env = dict(os.environ)
    env.update(BUILD_ENV)
    env["CARGO_TARGET_DIR"] = os.path.join(CACHE, target)
    env["RUSTFLAGS"] = rustflags
    if extra_env:
        env.update(extra_env)
    cmd = ["cargo"] + ([toolchain] if toolchain else []) + args
    r = subprocess.run(cmd, cwd=cwd or REPO, env=env, capture_output=True, text=True)
    if r.returncode != 0:
        raise InfraError("build failed (%s): %s" % (" ".join(cmd), r.stderr[-4000:]))
    return r


HOOKS_COMPILED = True


def build_cicada(kind="debug"):
    """Build the cicada binary from /repo's working tree with hooks on.
    kind: debug | nochecks (overflow checks + debug assertions off) | asan
    If the tree builds without the hooks but not with them (a change to a function the hook module
    re-exports), the binary is built with the hooks off: the process-level observers do not need them
    (only the in-process harness, the step budget and the wait-status trace do)."""
    global HOOKS_COMPILED
    try:
        return _build_cicada(kind, True)
    except InfraError as e:
        try:
            path = _build_cicada(kind, False)
        except InfraError:
            raise e
        if HOOKS_COMPILED:
            print("NOTE: /repo builds only with --cfg cicada_verif off (hook module out of date?): %s" % str(e)[-300:].replace("\n", " "))
            print("NOTE: running the process-level monitors on a build without hooks")
        HOOKS_COMPILED = False
        return path


def _build_cicada(kind, hooks):
    cfg = "--cfg cicada_verif" if hooks else ""
    sfx = "" if hooks else "-nh"
    lk = _lock("cargo-" + kind + sfx)
    try:
        if kind == "debug":
            _cargo(["build", "--offline", "--bin", "cicada"] + DEP_OPT, "t-bin" + sfx, rustflags=cfg)
            return os.path.join(CACHE, "t-bin" + sfx, "debug", "cicada")
        if kind == "nochecks":
            _cargo(["build", "--offline", "--bin", "cicada"] + DEP_OPT, "t-rel" + sfx,
                   {"CARGO_PROFILE_DEV_OVERFLOW_CHECKS": "false",
                    "CARGO_PROFILE_DEV_DEBUG_ASSERTIONS": "false",
                    "CARGO_PROFILE_DEV_OPT_LEVEL": "1"}, rustflags=cfg)
            return os.path.join(CACHE, "t-rel" + sfx, "debug", "cicada")
        if kind == "asan":
            _cargo(["build", "--offline", "--bin", "cicada", "--target", "x86_64-unknown-linux-gnu"],
                   "t-asan" + sfx, toolchain="+nightly",
                   rustflags=cfg + " -Zsanitizer=address -Cforce-frame-pointers=yes")
            return os.path.join(CACHE, "t-asan" + sfx, "x86_64-unknown-linux-gnu", "debug", "cicada")
        raise InfraError("unknown build kind " + kind)
    finally:
        lk.close()


def try_build_harness():
    """(path or None, reason): the in-process harness needs the hook module; without it the other layers still run"""
    try:
        return build_harness(), None
    except InfraError as e:
        return None, str(e)[-400:].replace("\n", " ")


def build_harness():
    lk = _lock("cargo-harness")
    try:
        hdir = os.path.join(VERIF, "harness")
        if REPO != "/repo":
            alt = os.path.join(CACHE, "harness-src")
            shutil.rmtree(alt, ignore_errors=True)
            shutil.copytree(hdir, alt, ignore=shutil.ignore_patterns("target", "Cargo.lock"))
            with open(os.path.join(alt, "Cargo.toml")) as f:
                toml = f.read()
            with open(os.path.join(alt, "Cargo.toml"), "w") as f:
                f.write(toml.replace('path = "/repo"', 'path = "%s"' % REPO))
            hdir = alt
        shutil.copyfile(os.path.join(REPO, "Cargo.lock"), os.path.join(hdir, "Cargo.lock"))
        _cargo(["build", "--offline", "--release"], "t-harness", cwd=hdir)
        return os.path.join(CACHE, "t-harness", "release", "harness")
    finally:
        lk.close()


# -------------------------------------------------------------------- scratch

def mkscratch(prefix="s"):
    os.makedirs(SCRATCH, exist_ok=True)
    return tempfile.mkdtemp(prefix=prefix, dir=SCRATCH)


def rmtree(p):
    shutil.rmtree(p, ignore_errors=True)


# ------------------------------------------------------------------ event log

def unhex(s):
    return bytes.fromhex(s)


def uh(s):
    return bytes.fromhex(s).decode("utf-8", "surrogateescape")


def read_log(path):
    recs = []
    if not os.path.exists(path):
        return recs
    with open(path, "rb") as f:
        data = f.read()
    lines = data.split(b"\n")
    # the text after the last newline is a record still being written (a reader polling the log while a helper
    # appends can see part of it): not a record yet
    for line in lines[:-1]:
        if not line.strip():
            continue
        try:
            r = json.loads(line)
        except Exception:
            recs.append({"kind": "garbled", "name": "", "argv": [], "raw": line[:200].decode("latin1")})
            continue
        if "argv" in r:
            r["argv"] = [uh(a) for a in r["argv"]]
        if "cwd" in r:
            r["cwd"] = uh(r["cwd"])
        if "env" in r:
            r["env"] = {k: (None if v is None else (uh(v[0]), v[1])) for k, v in r["env"].items()}
        if "stdin" in r:
            r["stdin"] = unhex(r["stdin"])
        if "pfds" in r:
            r["pfds"] = [(fd, uh(l)) for fd, l in r["pfds"]]
        if "sib" in r:
            r["sib"] = [(p, st, uh(c)) for p, st, c in r["sib"]]
        recs.append(r)
    return recs


# --------------------------------------------------------------------- driver

class Sandbox:
    """A scratch directory with home/, work/ (cwd), vp/ (VP_DIR), log."""

    def __init__(self, cicada, prefix="s"):
        self.cicada = cicada
        self.root = mkscratch(prefix)
        self.home = os.path.join(self.root, "home")
        self.work = os.path.join(self.root, "w")
        self.vpdir = os.path.join(self.root, "vp")
        self.log = os.path.join(self.root, "log.jsonl")
        for d in (self.home, self.work, self.vpdir):
            os.makedirs(d)

    def env(self, extra=None, watch=None, budget=20000):
        e = {
            "HOME": self.home,
            "PATH": HELPERS,
            "LANG": "C.UTF-8",
            "LC_ALL": "C.UTF-8",
            "VP_LOG": self.log,
            "VP_DIR": self.vpdir,
            "XDG_CONFIG_HOME": os.path.join(self.home, ".config"),
            "HISTORY_FILE": os.path.join(self.home, "history.sqlite"),
            "TERM": "xterm",
            "USER": "vp",
            "RUST_BACKTRACE": "0",
        }
        if budget:
            e["CICADA_VERIF_STEP_BUDGET"] = str(budget)
        if watch:
            e["VP_WATCH"] = ",".join(watch)
        if extra:
            e.update(extra)
        return e

    def reset_log(self):
        try:
            os.unlink(self.log)
        except FileNotFoundError:
            pass

    def records(self):
        return read_log(self.log)

    def listing(self, d=None):
        d = d or self.work
        out = {}
        for root, dirs, files in os.walk(d):
            for n in files + dirs:
                p = os.path.join(root, n)
                rel = os.path.relpath(p, d)
                try:
                    if os.path.islink(p):
                        out[rel] = ("l", os.readlink(p))
                    elif os.path.isdir(p):
                        out[rel] = ("d",)
                    else:
                        with open(p, "rb") as f:
                            out[rel] = ("f", f.read())
                except OSError as ex:
                    out[rel] = ("?", str(ex))
        return out

    def clean_work(self):
        rmtree(self.work)
        os.makedirs(self.work)

    def close(self):
        rmtree(self.root)


class RunResult:
    __slots__ = ("rc", "out", "err", "timed_out", "diag", "wall", "pid", "stdout_ino", "stderr_ino")

    def as_dict(self):
        return {"rc": self.rc, "out": self.out.decode("utf-8", "replace")[-2000:],
                "err": self.err.decode("utf-8", "replace")[-2000:], "timed_out": self.timed_out,
                "diag": self.diag}


def _proc_children(pid):
    res = []
    try:
        for t in os.listdir("/proc/%d/task" % pid):
            with open("/proc/%d/task/%s/children" % (pid, t)) as f:
                res += [int(x) for x in f.read().split()]
    except OSError:
        pass
    return res


def _descendants(pid):
    out = []
    stack = [pid]
    while stack:
        p = stack.pop()
        for c in _proc_children(p):
            out.append(c)
            stack.append(c)
    return out


def _pstat(pid):
    try:
        with open("/proc/%d/stat" % pid) as f:
            s = f.read()
        rp = s.rindex(")")
        comm = s[s.index("(") + 1:rp]
        fields = s[rp + 2:].split()
        d = {"pid": pid, "comm": comm, "state": fields[0], "ppid": int(fields[1]),
             "pgrp": int(fields[2]), "utime": int(fields[11]), "stime": int(fields[12])}
        try:
            with open("/proc/%d/syscall" % pid) as f:
                d["syscall"] = f.read().split()[0]
        except OSError:
            d["syscall"] = "?"
        try:
            with open("/proc/%d/wchan" % pid) as f:
                d["wchan"] = f.read().strip()
        except OSError:
            pass
        fds = {}
        try:
            for fd in os.listdir("/proc/%d/fd" % pid):
                try:
                    fds[int(fd)] = os.readlink("/proc/%d/fd/%s" % (pid, fd))
                except OSError:
                    pass
        except OSError:
            pass
        d["fds"] = fds
        return d
    except (OSError, ValueError):
        return None


def diagnose(pid):
    """Sample the process tree under pid twice; classify a hang."""
    snap1 = {p: _pstat(p) for p in [pid] + _descendants(pid)}
    time.sleep(0.3)
    snap2 = {p: _pstat(p) for p in [pid] + _descendants(pid)}
    procs = []
    spinning = False
    for p, s2 in snap2.items():
        if not s2:
            continue
        s1 = snap1.get(p)
        cpu = (s2["utime"] + s2["stime"]) - ((s1["utime"] + s1["stime"]) if s1 else 0)
        procs.append({"pid": p, "comm": s2["comm"], "state": s2["state"], "syscall": s2["syscall"],
                      "cpu_ticks": cpu,
                      "pipes": sorted(v for v in s2["fds"].values() if v.startswith("pipe:"))})
        if p == pid and s2["state"] == "R" and cpu >= 20:
            spinning = True
    kind = "spin" if spinning else "blocked"
    return {"kind": kind, "procs": procs}


def kill_tree(pid):
    for p in _descendants(pid) + [pid]:
        try:
            os.kill(p, signal.SIGKILL)
        except OSError:
            pass


MEM_LIMIT = 6 << 30      # address space of every shell the drivers start (not the sanitizer build, which reserves terabytes)


def run_cicada(sb, args, stdin=None, timeout=20.0, env_extra=None, watch=None, cwd=None,
               budget=20000, binary=None, env_override=None, during=None):
    """Run cicada with args (list).  stdin: None => /dev/null, bytes => pipe.
    during: callable(shell_pid) run in a thread while the shell runs (to signal its children from outside)."""
    env = env_override if env_override is not None else sb.env(env_extra, watch, budget)
    t0 = time.time()
    r = RunResult()
    p = subprocess.Popen([binary or sb.cicada] + list(args), cwd=cwd or sb.work, env=env,
                         stdin=subprocess.DEVNULL if stdin is None else subprocess.PIPE,
                         stdout=subprocess.PIPE, stderr=subprocess.PIPE, close_fds=True,
                         start_new_session=True)
    r.pid = p.pid
    if "asan" not in os.path.basename(os.path.dirname(binary or sb.cicada)) and "asan" not in (binary or sb.cicada):
        # a runaway allocation (a range of 2^31 words ...) must end as a crash of that shell, not take the machine down
        try:
            import resource
            resource.prlimit(p.pid, resource.RLIMIT_AS, (MEM_LIMIT, MEM_LIMIT))
        except (OSError, ValueError, AttributeError):
            pass
    try:
        r.stdout_ino = os.fstat(p.stdout.fileno()).st_ino
        r.stderr_ino = os.fstat(p.stderr.fileno()).st_ino
    except OSError:
        r.stdout_ino = r.stderr_ino = None
    r.timed_out = False
    r.diag = None
    th = None
    if during is not None:
        import threading
        th = threading.Thread(target=during, args=(p.pid,), daemon=True)
        th.start()
    try:
        out, err = p.communicate(stdin, timeout=timeout)
    except subprocess.TimeoutExpired:
        r.timed_out = True
        r.diag = diagnose(p.pid)
        kill_tree(p.pid)
        try:
            os.killpg(p.pid, signal.SIGKILL)
        except OSError:
            pass
        out, err = p.communicate()
    # reap stragglers in the session (background jobs)
    try:
        os.killpg(p.pid, signal.SIGKILL)
    except OSError:
        pass
    if th is not None:
        th.join(2.0)
    r.rc = p.returncode
    r.out = out or b""
    r.err = err or b""
    r.wall = time.time() - t0
    return r


def crashed(r):
    """A panic / abort / signal death of the shell itself."""
    if r.rc is not None and r.rc < 0:
        return "signal %d" % (-r.rc)
    # (exit status 101 alone is not a panic: a command may legitimately exit 101)
    if b"panicked at" in r.err:
        m = r.err.split(b"panicked at", 1)
        loc = m[1].split(b"\n", 2)[0].strip().decode("utf-8", "replace") if len(m) > 1 else "?"
        msg = m[1].split(b"\n", 2)[1].strip().decode("utf-8", "replace")[:120] if len(m) > 1 and m[1].count(b"\n") >= 2 else ""
        return "panic at %s %s" % (loc.rstrip(":"), msg)
    if b"AddressSanitizer" in r.err:
        return "asan " + r.err.split(b"AddressSanitizer", 1)[1][:80].decode("latin1")
    return None


# ------------------------------------------------------------ known findings

def load_findings(prop):
    path = os.path.join(VERIF, "known_findings.json")
    if not os.path.exists(path):
        return {}, {}
    with open(path) as f:
        data = json.load(f)
    opened, fixed = {}, {}
    for e in data.get("findings", []):
        if e.get("property") != prop:
            continue
        if e.get("status") == "open":
            opened[e["signature"]] = e
        elif e.get("status") == "fixed":
            fixed[e["signature"]] = e
    return opened, fixed


# ------------------------------------------------------------------- verdicts

class Report:
    """Collects per-case verdicts, prints the interface lines, writes evidence."""

    def __init__(self, prop, tier, seed, level="exploration"):
        self.prop = prop
        self.tier = tier
        self.seed = seed
        self.level = level
        self.t0 = time.time()
        self.evaluations = 0
        self.held = 0
        self.inconclusive = []
        self.distinct = set()
        self.samples = []
        self.violations = {}      # signature -> list of cases
        self.extra = {}
        self.rule = ""
        self.assumptions = []
        self.observed = {}        # counters of observed events
        self.known, self.fixed = load_findings(prop)

    def count(self, key, n=1):
        self.observed[key] = self.observed.get(key, 0) + n

    def case(self, case_key, nontrivial=True, sample=None):
        self.evaluations += 1
        if nontrivial:
            self.distinct.add(hashlib.sha1(repr(case_key).encode("utf-8", "surrogateescape")).digest()[:8])
        if sample is not None and len(self.samples) < 12:
            self.samples.append(sample)

    def hold(self):
        self.held += 1

    def violate(self, signature, case, detail):
        self.violations.setdefault(signature, []).append({"case": case, "detail": detail})

    def inconc(self, why, case=None):
        self.inconclusive.append({"why": why, "case": case})

    def finish(self):
        os.makedirs(EVIDENCE, exist_ok=True)
        unknown = []
        known_hit = {}
        for sig, cases in sorted(self.violations.items()):
            if sig in self.known:
                known_hit[sig] = len(cases)
            else:
                unknown.append(sig)
        for sig, n in sorted(known_hit.items()):
            print("KNOWN-FINDING: property=%s %s (%s; %d case(s) this run)" % (
                self.prop, sig, self.known[sig].get("what", ""), n))
        rc = 0
        for sig in unknown:
            cases = self.violations[sig]
            d = os.path.join(REPLAYS, self.prop)
            os.makedirs(d, exist_ok=True)
            h = hashlib.sha1(sig.encode()).hexdigest()[:12]
            path = os.path.join(d, h + ".json")
            with open(path, "w") as f:
                json.dump({"property": self.prop, "signature": sig, "seed": self.seed, "tier": self.tier,
                           "n_cases": len(cases), "cases": cases[:5]}, f, indent=1, default=_jd)
            note = " (was recorded as fixed: regression)" if sig in self.fixed else ""
            print("VIOLATION property=%s replay=%s signature=%s%s" % (self.prop, path, sig, note))
            first = cases[0]
            print("  first case: %s" % json.dumps(first, default=_jd)[:600])
            rc = 1
        conclusive = self.held + sum(len(v) for v in self.violations.values())
        cov = {
            "evaluations": self.evaluations,
            "distinct_nontrivial": len(self.distinct),
            "rule": self.rule,
            "samples": self.samples[:12],
            "held": self.held,
            "inconclusive": len(self.inconclusive),
            "inconclusive_examples": self.inconclusive[:5],
            "observed": self.observed,
            "known_findings_hit": known_hit,
            "unlisted_violation_signatures": unknown,
        }
        cov.update(self.extra)
        ev = {
            "property_id": self.prop, "tier": self.tier, "seed": self.seed, "level": self.level,
            "coverage": cov, "assumptions": self.assumptions,
            "wall_s": round(time.time() - self.t0, 2),
            "violations": sum(len(self.violations[s]) for s in unknown),
        }
        with open(os.path.join(EVIDENCE, self.prop + ".json"), "w") as f:
            json.dump(ev, f, indent=1, default=_jd)
        print("%s %s seed=%d: %d evaluations, %d distinct non-trivial, %d held, %d known-finding cases, "
              "%d unlisted violation signature(s), %d inconclusive, %.1fs" % (
                  self.prop, self.tier, self.seed, self.evaluations, len(self.distinct), self.held,
                  sum(known_hit.values()), len(unknown), len(self.inconclusive), time.time() - self.t0))
        if rc == 0 and conclusive == 0:
            print("no conclusive case: infrastructure problem")
            return 2
        nh = sum(1 for i in self.inconclusive if str(i.get("why", "")).startswith("harness"))
        if rc == 0 and nh:
            print("%d case(s) could not be judged because the checker itself failed: no verdict" % nh)
            print("  e.g. %s" % str(self.inconclusive[0])[:600])
            return 2
        return rc


def _jd(o):
    if isinstance(o, bytes):
        return o.decode("utf-8", "backslashreplace")
    if isinstance(o, (set, frozenset)):
        return sorted(o)
    return repr(o)


# ------------------------------------------------------------------- parallel

def pmap(fn, items, init=None, initargs=(), procs=None, chunksize=1):
    """Ordered parallel map over processes (fork)."""
    import multiprocessing as mp
    procs = procs or NPROC
    if procs <= 1 or len(items) <= 1:
        if init:
            init(*initargs)
        return [fn(x) for x in items]
    ctx = mp.get_context("fork")
    with ctx.Pool(procs, initializer=init, initargs=initargs) as pool:
        return pool.map(fn, items, chunksize)


def rng_for(seed, *parts):
    h = hashlib.sha256(("%d|" % seed + "|".join(str(p) for p in parts)).encode()).digest()
    return random.Random(int.from_bytes(h[:8], "big"))


def get_seed():
    try:
        return int(os.environ.get("VERIF_SEED", "1"))
    except ValueError:
        return 1


# ------------------------------------------------------------------ hermetic

_REAL = None


def real_commands():
    """names of executables in the directories cicada always puts in front of PATH"""
    global _REAL
    if _REAL is None:
        names = set()
        for d in ("/usr/local/sbin", "/usr/local/bin", "/usr/sbin", "/usr/bin", "/sbin", "/bin"):
            try:
                names.update(os.listdir(d))
            except OSError:
                pass
        _REAL = names
    return _REAL


def hermetic(line):
    """rewrite every word of a generated line that happens to be the name of a real program (e.g. a helper
    name cut down to `vp`, `w`, `ar`, `[`) so that random lines can only start helpers, builtins or nothing"""
    import re
    real = real_commands()

    def fix(m):
        w = m.group(0)
        return ("Q" + w) if w in real else w
    line = re.sub(r"[A-Za-z0-9_.+\-]+", fix, line)
    # `[` alone in command position is /usr/bin/[
    line = re.sub(r"(^|[;&|(`]\s*)\[(?=\s|$)", r"\1Q[", line)
    return line


class FileProc:
    """a child whose stdout goes to a scratch file: many such children can run side by side without
    blocking on a full pipe while the parent reads them one at a time (the code under test prints to
    stdout too, so a shard's output can be far larger than a pipe buffer)"""

    def __init__(self, argv, **kw):
        import tempfile
        os.makedirs(os.path.join(CACHE, "scratch"), exist_ok=True)
        self.f = tempfile.NamedTemporaryFile(prefix="out-", dir=os.path.join(CACHE, "scratch"))
        self.p = subprocess.Popen(argv, stdout=self.f, stderr=subprocess.DEVNULL, **kw)
        self.returncode = None

    def communicate(self, tail=4 << 20):
        self.p.wait()
        self.returncode = self.p.returncode
        self.f.seek(0, 2)
        size = self.f.tell()
        self.f.seek(max(0, size - tail))
        data = self.f.read()
        self.f.close()
        return data, b""


# ------------------------------------------------- the escape family (open findings of C01 / C20): does it apply at all?

def unusable_pattern(name):
    """texts the wildcard matcher rejects as a pattern: `**` that is not a whole path component, three stars in a row, a `[`
    with no `]` after it (the wildcard pass leaves such a word alone)"""
    if "***" in name or ("**" in name and name != "**"):
        return True
    i = name.find("[")
    while i >= 0:
        if "]" not in name[i + 1:]:
            return True
        i = name.find("[", i + 1)
    return False


def esc_effects(t, entries):
    """Backslash-escaped characters keep no quote tag in cicada's tokens (only a word that *starts* with an escaped $ or |,
    and escaped < >, get one), so the later passes act on them.  Which of those passes would actually change the unescaped
    text `t` (entries: the names in the directory the wildcard pass looks at; None = unknown, assume it matches)?  A failure
    of a text none of them would change is not that finding."""
    import fnmatch
    import re
    out = set()
    if t[:1] in ("$", "|") or "<" in t or ">" in t:
        return out                      # the word carries a tag: no pass touches it
    if t.count("`") >= 2:
        out.add("backquote")
    if re.search(r"\$\{([A-Za-z0-9_]+|\$|\?)\}|\$([A-Za-z0-9_]+|\$|\?)", t) or re.search(r"\$\([^)]+\)", t):
        out.add("dollar")
    if t.startswith("~"):
        out.add("tilde")
    if re.search(r"\{[^ \"']*,[^ \"']*\}", t):
        out.add("brace")
    if "*" in t and not t.lstrip().startswith(("'", '"')) and not unusable_pattern(t):
        if entries is None or "/" in t:
            out.add("star")
        else:
            m = [e for e in entries if fnmatch.fnmatchcase(e, t) and (not e.startswith(".") or t.startswith("."))]
            if m and m != [t]:
                out.add("star")
    return out
