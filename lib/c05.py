"""C05 no input line, script or keystroke sequence crashes or hangs the shell.

Layers, same oracle (no panic, no abort/signal, no step-budget trip of a rewrite loop, no
diagnosed spin/deadlock, the shell still serves the next command):
 1. in-process, exhaustive: every string up to length 5 (thorough 6) over a 14-symbol alphabet of
    shell-special characters and every sequence of up to 4 (5) fragments of a second alphabet,
    through all pure stages (harness/src/c05.rs), each call under catch_unwind + step budget;
 2. process level: grammar- and mutation-generated lines (<=200 chars, multi-byte included) through
    `-c`, a script followed by a sentinel command, and stdin of a non-tty shell, on the debug and the
    no-overflow-check binary, with the step budget enabled;
 3. pty: random key sequences (printable Unicode, TAB, arrows, ^A ^E ^K ^U ^W, backspace, Enter),
    then ^C ^U and a sentinel command that must still run in the same shell process."""
import json
import os
import re
import subprocess
import time

import common
import ptydrv
import c01
from common import Report, Sandbox, run_cicada, crashed

_sb = None
_bins = {}


def _init(cicada, nochecks, asan=None):
    global _sb
    _sb = Sandbox(cicada, "c05")
    _bins["debug"] = cicada
    _bins["nochecks"] = nochecks
    if asan:
        _bins["asan"] = asan


FRAGS = ["'", '"', "`", "\\", "$", "$(", ")", "(", "${", "}", "{", "|", "||", "&", "&&", ";", ">", ">>", "<", "<<<", "2>&1", "1>&2",
         " ", "  ", "Qa", "vp_argv", "vp_argv x", "Q1", "é中", "*", "~", "#", ",", "..", "{1..3}", "{a,b}", "$X", "$Y", "${X}", "$?",
         "$$", "=", "A=1", "1", "+", "-", "*", "/", "^", "9223372036854775808", "99999999999999999999", "2 ^ 64", "(1 + 2)",
         "0.5", "!", "!!", "%", "[", "]", "?", "\t", "alias", "alias Qz='vp_argv'", "Qz", "export", "cd", "unset", "read Qv <<< a",
         "source", "history", "jobs", "fg", "bg", "set -e", "ulimit -n", "vox", "cinfo", "minfd", "exec", "\\\n", "\\$", "\\|",
         "$(vp_out K)", "`vp_out K`", "$(vp_out >)", "$(", "$()", "``", "1 + ", "(", "((", "))", "{,}", "{..}", "{1..}", "{1..9999999999}",
         "alias Qr='vp_argv $(Qr)' ; Qr", "alias Qs='Qs' ; Qs", "{1..3..0}", "{-5..5..2}", "{2147483646..2147483647}", "{-2147483647..-2147483648}", "{1..3..2147483647}", "{2147483640..2147483647..5}",
         # ranges far too large to build (the shell must refuse them, not try)
         "{1..2147483647}", "{-2147483648..2147483647}", "x{0..999999999}y", "{2000000000..-2000000000..3}", "a" * 50, "'" * 3, "\\" * 3, "🙂", "́", "​", "\u3000", "\u00a0", "\u2003", "\\\u3000", "\\\u00a0"]
BANNED_WORDS = ("exit", "exec ")
RECURSIVE_SCRIPTS = ["function vpr {\n    vpr\n}\nvpr", "function vpa {\n    vpb x\n}\nfunction vpb {\n    vpa $1\n}\nvpa",
                     "function vpc {\n    vp_argv $(vpc)\n}\nvpc", "function vpd {\n    if vp_status 0 t; then\n        vpd\n    fi\n}\nvpd"]


def tame_ranges(line):
    """bound the work a line legitimately asks for: `{1..999999999}` is a finite but hour-long (and 30 GB)
    expansion that a wall-clock watchdog cannot tell from a loop.  Ranges keep a span <= 100 and a line keeps at
    most 3 of them (their product is what gets materialised); numbers too large for the range parser stay."""
    count = [0]

    def fix(m):
        a, b = int(m.group(1)), int(m.group(2))
        if abs(a) > 2 ** 31 or abs(b) > 2 ** 31:
            return m.group(0)          # not parsed as a range at all
        count[0] += 1
        if count[0] > 3:
            return "Q" + m.group(0)[1:]
        if abs(b - a) > 100:
            b = a + 100 if b > a else a - 100
        return "{%d..%d" % (a, b)
    return re.sub(r"\{(-?\d+)\.\.(-?\d+)", fix, line)


def gen_line(rng, seeds):
    r = rng.random()
    if r < 0.6:
        n = rng.randint(1, 12)
        line = "".join(rng.choice(FRAGS) + rng.choice(["", "", " "]) for _ in range(n))
    else:
        line = rng.choice(seeds)
        for _ in range(rng.randint(1, 5)):
            if not line:
                line = rng.choice(FRAGS)
            k = rng.random()
            i = rng.randrange(len(line) + 1)
            if k < 0.3:
                line = line[:i] + rng.choice(FRAGS) + line[i:]
            elif k < 0.6 and line:
                j = min(len(line), i + rng.randint(1, 3))
                line = line[:i] + line[j:]
            elif k < 0.8 and line:
                j = min(len(line), i + rng.randint(1, 4))
                line = line[:j] + line[i:j] + line[j:]
            else:
                line = line[:i] + rng.choice("'\"`\\$(){}|&;<>*~# ") + line[i:]
    line = tame_ranges(line[:200].replace("\r", "").replace("\x00", ""))
    # keep the vocabulary hermetic: only helpers, builtins and names that do not exist can run
    line = re.sub(r"\b(exit|exec)\b", "Qx", line)
    return common.hermetic(line)


def seeds_for(rng):
    out = []
    alpha = [c for c in c01.ALPHA]
    for _ in range(60):
        args = []
        for _ in range(rng.randint(1, 4)):
            t = "".join(rng.choice(alpha) for _ in range(rng.randint(0, 5)))
            args.append((t, rng.choice(c01.styles_for(t))))
        out.append(c01.render(args, rng.choice(c01.FOLLOWERS)))
    out += ["vp_argv $(vp_out K) `vp_out K`", "A=1 B=2 vp_argv \"$A\" ${B}", "vp_st src 10 1 | vp_st flt 1 | vp_st snk > f1 2>&1",
            "1 + 2 * (3 - 4) / 5 ^ 2", "vp_argv {a,b}{1..3} ~ *", "alias Qz='vp_argv -l' ; Qz x | vp_b", "vp_io A <<< word ; vp_argv $?",
            # an alias whose value substitutes the alias itself: substitutions nest through the shell's own stack
            "alias Qr='vp_argv $(Qr)' ; Qr", "alias Qt='vp_argv `Qt` x' ; Qt | vp_b"]
    return out


def location(err):
    m = re.search(rb"panicked at ([^\n]+?):(\d+):\d+", err)
    if not m:
        return "?"
    f = m.group(1).decode("utf-8", "replace")
    if "/library/" in f or "/rustc/" in f:
        f = "std:" + os.path.basename(f)
    return "%s:%s" % (f, m.group(2).decode())


def judge_line(case):
    sb = _sb
    sb.reset_log()
    sb.clean_work()
    with open(os.path.join(sb.vpdir, "out.K"), "w") as f:
        f.write("kout\n")
    line, mode, binary = case["line"], case["mode"], case["binary"]
    env = {"X": "$X", "Y": "$Z", "Z": "$Y"}
    if binary == "asan":
        # sanitizer pass: a report aborts the shell and is judged as a crash
        env["ASAN_OPTIONS"] = "halt_on_error=1:abort_on_error=1:detect_leaks=0"
    if mode == "c":
        r = run_cicada(sb, ["-c", line], timeout=20, binary=_bins[binary], env_extra=env, budget=3000)
    elif mode == "script":
        p = os.path.join(sb.root, "l.sh")
        with open(p, "w") as f:
            f.write(line + "\nvp_argv SENTINEL\n")
        r = run_cicada(sb, [p], timeout=20, binary=_bins[binary], env_extra=env, budget=3000)
    else:
        r = run_cicada(sb, [], stdin=line.encode("utf-8", "replace") + b"\n", timeout=20, binary=_bins[binary], env_extra=env, budget=3000)
    res = {"line": line, "mode": mode, "binary": binary, "rc": r.rc, "stderr": r.err.decode("utf-8", "replace")[-300:]}
    if b"step budget exceeded" in r.err:
        site = re.search(rb"step budget exceeded at (\w+)", r.err)
        return ("violated", "C05:process:non-terminating-rewrite:%s" % (site.group(1).decode() if site else "?"), res)
    if r.timed_out:
        res["diag"] = r.diag
        if r.diag and r.diag["kind"] == "spin":
            return ("violated", "C05:process:hang-spinning", res)
        if r.diag and r.diag["procs"] and all(p["cpu_ticks"] == 0 for p in r.diag["procs"]):
            return ("violated", "C05:process:hang-deadlock:%s" % mode, res)
        return ("inconclusive", "timeout", res)
    if b"AddressSanitizer" in r.err:
        m = re.search(rb"AddressSanitizer: ([a-z-]+)", r.err)
        return ("violated", "C05:process:asan-%s" % (m.group(1).decode() if m else "report"), res)
    if r.rc is not None and r.rc < 0:
        return ("violated", "C05:process:killed-by-signal-%d" % (-r.rc), res)
    if b"panicked at" in r.err:
        return ("violated", "C05:process:panic@%s" % location(r.err), res)
    if mode == "script":
        lines = line.split("\n")
        # a line that makes the *script* unparsable (block keywords) is rejected as a whole: no sentinel expected
        if not any(x["name"] == "vp_argv" and x["argv"][1:2] == ["SENTINEL"] for x in sb.records()):
            if b"syntax error" in r.err or re.match(r"\s*(if|for|while|else|fi|done|function)\b", line) or "\\\n" in line or line.rstrip().endswith("\\"):
                return ("held", None, res)
            if re.search(r"(^|[;&|]\s*)set -e\b", line) or "exit" in line:
                return ("held", None, res)
            return ("violated", "C05:script:next-command-did-not-run", res)
    return ("held", None, res)


KEYS = ["'", '"', "`", "\\", "$", "(", ")", "{", "}", "|", "&", ";", ">", "<", "*", "~", "#", " ", "Q", "Z", "7", "é", "中", "🙂", "́",
        "\t", "\t\t", "\x1b[A", "\x1b[B", "\x1b[C", "\x1b[D", "\x01", "\x05", "\x0b", "\x15", "\x17", "\x7f", "\r", "\x1b[3~", "\x1bb", "\x1bf",
        "\x0c", "\x14", "\x19", "Qp_", "Qp_argv ", "./", "~/", "$X", "!!", "2>&1",
        # whole lines that make the history expansion see its own output: a recorded command containing `!!`, then `!!`
        "Qe '!!'\r", "Qe again !!\r", "!!\r", " !! \r", "Qe \\!\\! !!\r"]


def judge_pty(case):
    sb = _sb
    sb.reset_log()
    sb.clean_work()
    for n in ("fa", "fb c", "d1"):
        p = os.path.join(sb.work, n)
        if n == "d1":
            os.makedirs(p, exist_ok=True)
        else:
            open(p, "w").close()
    rng = common.rng_for(case["seed"], "c05pty")
    keys = [rng.choice(KEYS) for _ in range(rng.randint(5, 60))]
    res = {"keys": keys}
    s = ptydrv.PtySession(sb, env_extra={"X": "$X"}, budget=3000)
    try:
        ok, _ = s.wait_prompt(15)
        if not ok:
            return ("inconclusive", "no prompt", res)
        for k in keys:
            s.send(k)
            if k == "\r":
                s.drain(0.05, 1.0)
            elif rng.random() < 0.2:
                s.drain(0.01, 0.2)
        s.drain(0.1, 1.5)
        # back to a clean line: ^C, ^U, close an open quote / continuation, then the sentinel
        for attempt in range(3):
            s.send("\x03")
            s.drain(0.05, 0.5)
            s.send("\x15")
            s.send("vp_argv SENTINEL%d\r" % attempt)
            t0 = time.time()
            while time.time() - t0 < 4:
                s.drain(0.05, 0.3)
                if any(x["name"] == "vp_argv" and x["argv"][1:2] == ["SENTINEL%d" % attempt] for x in sb.records()):
                    return ("held", None, res) if s.alive() else ("violated", "C05:pty:shell-died-after-sentinel", res)
                if not s.alive():
                    break
            if not s.alive():
                break
        out = s.all[-600:]
        res["tail"] = out.decode("utf-8", "replace")
        if not s.alive():
            txt = s.all.decode("utf-8", "replace")
            m = re.search(r"panicked at ([^\n]+?):(\d+):\d+", txt)
            if m:
                f = m.group(1)
                if "/.cargo/" in f or "/registry/" in f:
                    f = "dep:" + "/".join(f.split("/")[-3:])
                return ("violated", "C05:pty:panic@%s:%s" % (f, m.group(2)), res)
            if "exit\r\n" in txt[-40:] or "exit" in txt[-20:]:
                return ("held", None, res)      # ^D on an empty line: a legitimate exit
            if txt.count("invalid utf-8 input received") >= 3:
                # the prompt loop span on a read error (undecodable bytes kept in the line reader's buffer) until ^C killed it
                return ("violated", "C05:pty:undecodable-input-makes-every-later-read-fail", res)
            return ("violated", "C05:pty:shell-died", res)
        return ("violated", "C05:pty:shell-does-not-serve-the-next-command", res)
    finally:
        s.close()


def judge_interrupt(case):
    """Ctrl-C typed while the shell itself is at work - a builtin whose output is larger than what the terminal takes while
    nobody reads it - must not end the shell: the next command is served"""
    sb = _sb
    sb.reset_log()
    sb.clean_work()
    res = {"what": case["what"], "delay": case["delay"]}
    with open(os.path.join(sb.root, "al.sh"), "w") as f:
        for i in range(2500):
            f.write("alias zz%04d='vp_argv a-long-value-that-fills-the-terminal-buffer-quickly %d'\n" % (i, i))
    s = ptydrv.PtySession(sb, env_extra={"VP_AL": sb.root}, budget=0)
    try:
        ok, _ = s.wait_prompt(15)
        if not ok:
            return ("inconclusive", "no prompt", res)
        ok, _ = s.line("source $VP_AL/al.sh", 120)
        if not ok:
            return ("inconclusive", "the definitions were not read in time", res)
        s.send({"alias-listing": "alias\r", "listing-twice": "alias ; alias\r", "listing-after-another-command": "vp_argv pre ; alias\r"}[case["what"]])
        time.sleep(case["delay"])          # the shell is blocked writing: nothing is read from the terminal meanwhile
        s.send("\x03")
        time.sleep(0.3)
        s.drain(0.2, 30.0)
        if not s.alive():
            st = s.exited
            res["wait_status"] = st
            how = "killed-by-signal-%d" % os.WTERMSIG(st) if st is not None and st >= 0 and os.WIFSIGNALED(st) else "exited"
            return ("violated", "C05:pty:ctrl-c-while-a-builtin-prints-ends-the-shell:%s" % how, res)
        for attempt in range(3):
            s.send("\x15")
            s.send("vp_argv SENTINEL%d\r" % attempt)
            t0 = time.time()
            while time.time() - t0 < 6:
                s.drain(0.05, 0.3)
                if any(x["name"] == "vp_argv" and x["argv"][1:2] == ["SENTINEL%d" % attempt] for x in sb.records()):
                    return ("held", None, res)
                if not s.alive():
                    return ("violated", "C05:pty:ctrl-c-while-a-builtin-prints-ends-the-shell:later", res)
        res["tail"] = s.all[-400:].decode("utf-8", "replace")
        return ("violated", "C05:pty:shell-does-not-serve-the-next-command:after-ctrl-c-during-a-builtin", res)
    finally:
        s.close()


def _work(case):
    try:
        if case["kind"] == "pty":
            return judge_pty(case)
        if case["kind"] == "pty-interrupt":
            return judge_interrupt(case)
        return judge_line(case)
    except Exception as e:
        import traceback
        return ("inconclusive", "harness: %r %s" % (e, traceback.format_exc()[-600:]), {})


def run(tier, seed):
    common.build_helpers()
    cicada = common.build_cicada("debug")
    nochecks = common.build_cicada("nochecks")
    harness, why_not = common.try_build_harness()
    rep = Report("C05", tier, seed)
    if harness is None:
        rep.inconc("harness: the in-process harness did not build, layer 1 not run (%s)" % why_not)
    thorough = tier == "thorough"
    rep.rule = ("layer 1: all strings of length<=%d over {' \" ` \\ $ ( ) { } | & > blank a} and all sequences of <=%d fragments of "
                "{; < * ~ # , .. 1 + ^ = e-acute $X 2>&1}, of {| ( ) ' \" \\ $ blank e-acute CJK a > & ;} and of {\\ U+3000 U+00A0 U+2003 blank tab newline ; a | & ' \" $} through line_to_cmds, parse_line, tokens_to_line, tokens_to_redirections, "
                "Command::from_tokens, CommandLine::from_line (+ first-word lookups), do_expansion, is_arithmetic/run_calculator, "
                "script grammar, expand_args, trim_multiline_prompts, extend_bangbang, highlight, escaped_word_start + the slice "
                "lineread takes, with X='$X' Y='$Z' Z='$Y'; layer 2: grammar/mutation generated lines through -c, script+sentinel, "
                "non-tty stdin on two builds; layer 3: random key sequences in a pty followed by a sentinel command, and Ctrl-C typed while a builtin is printing more than the terminal takes.  "
                "Non-trivial: every case (all contain special characters); distinct by input." % ((6, 5) if thorough else (5, 4)))
    rep.assumptions = ["a rewrite loop exceeding its step budget (2000/3000 iterations per command) is non-termination",
                       "a watchdog hit is a violation only with a /proc diagnosis (spinning, or all processes asleep)",
                       "generated words are helper names, builtins or names that do not exist, so no real utility can run"]
    n = common.NPROC
    scratch = common.mkscratch("c05l1")
    # ---- layer 1
    t0 = time.time()
    jobs = []
    la, lb = (6, 5) if thorough else (5, 4)
    for i in range(n if harness else 0):
        jobs.append(common.FileProc([harness, "c05", "A", str(la), str(i), str(n), os.path.join(scratch, "a%d" % i)]))
    for i in range(n if harness else 0):
        jobs.append(common.FileProc([harness, "c05", "B", str(lb), str(i), str(n), os.path.join(scratch, "b%d" % i)]))
    for i in range(n if harness else 0):
        jobs.append(common.FileProc([harness, "c05", "C", str(lb), str(i), str(n), os.path.join(scratch, "c%d" % i)]))
    for i in range(n if harness else 0):
        jobs.append(common.FileProc([harness, "c05", "D", str(lb), str(i), str(n), os.path.join(scratch, "d%d" % i)]))
    l1_strings = 0
    for p in jobs:
        o, _ = p.communicate()
        if p.returncode == 4 and b"\nHANG " in o:
            # the shard's watchdog fired inside one call: that call does not terminate (the rest of the shard is unexplored)
            parts = o[o.rindex(b"\nHANG ") + 6:].split()
            stage, hexin = parts[0], (parts[1] if len(parts) > 1 else b"")
            example = bytes.fromhex(hexin.decode()).decode("utf-8", "replace")
            rep.violate("C05:inprocess:%s:does-not-return-within-20s" % stage.decode(), {"layer": 1, "example": example}, {"count": 1})
            continue
        if p.returncode != 0 or not o.strip():
            rep.inconc("harness: layer-1 shard exited %s" % p.returncode)
            continue
        # the code under test prints to stdout too (e.g. the line rewritten by `!!`): the summary is the last line
        last = [l for l in o.decode("utf-8", "replace").split("\n") if l.startswith('{"alphabet"')]
        if not last:
            rep.inconc("harness: layer-1 shard gave no summary")
            continue
        d = json.loads(last[-1])
        l1_strings += d["strings"]
        for smp in d["samples"][:1]:
            if len(rep.samples) < 4:
                rep.samples.append({"layer": 1, "alphabet": d["alphabet"], "string": smp})
        for f in d["failures"]:
            rep.violate("C05:inprocess:" + f["signature"], {"layer": 1, "alphabet": d["alphabet"], "example": f["example"]}, {"count": f["count"]})
    common.rmtree(scratch)
    rep.extra["layer1_strings"] = l1_strings
    rep.extra["layer1_wall_s"] = round(time.time() - t0, 1)
    rep.extra["layer1_exhaustive"] = True
    # ---- layers 2 and 3
    rng = common.rng_for(seed, "C05")
    seeds = seeds_for(rng)
    cases = []
    for _ in range(60000 if thorough else 5000):
        cases.append({"kind": "line", "line": gen_line(rng, seeds), "mode": rng.choice(["c", "c", "script", "stdin"]),
                      "binary": rng.choice(["debug", "debug", "nochecks"] + (["asan", "asan"] if thorough else []))})
    for _ in range(1000 if thorough else 96):
        cases.append({"kind": "pty", "seed": rng.randrange(1 << 30)})
    # an assignment / export whose value is exactly one quote character (written, or brought in by a reference)
    for text in ("Qq='\"' ; export Qa=$Qq ; vp_argv ok", "Qq=\"'\" ; export Qa=$Qq", "Qq='\"' ; Qb=$Qq vp_argv ok", "Qa=\"", "export Qa='", "vp_argv x ; Qa=\""):
        for mode in ("c", "script"):
            cases.append({"kind": "line", "line": text, "mode": mode, "binary": "debug"})
    # commands that read their standard input, given on a standard input that is no terminal
    for text in ("read Qv", "``read Qv <<< a", "vp_argv x ; read Qv Qw", "read Qv ; vp_argv y"):
        cases.append({"kind": "line", "line": text, "mode": "stdin", "binary": "debug"})
    # lines with a range far too large to build, as a word of its own
    for text in ("vp_argv {1..2147483647}", "vp_argv x{-2147483648..2147483647}y z", "{2000000000..-2000000000..3}"):
        for mode in ("c", "script"):
            cases.append({"kind": "line", "line": text, "mode": mode, "binary": "debug"})
    cases.append({"kind": "line", "line": "for i in {1..2147483647}\n    vp_argv $i\ndone", "mode": "script", "binary": "nochecks"})
    # scripts whose functions call themselves (directly, through each other, through a substitution) without end
    for text in RECURSIVE_SCRIPTS:
        cases.append({"kind": "line", "line": text, "mode": "script", "binary": "debug"})
        cases.append({"kind": "line", "line": text, "mode": "script", "binary": "nochecks"})
    for _ in range(24 if thorough else 4):
        cases.append({"kind": "pty-interrupt", "what": rng.choice(["alias-listing", "listing-twice", "listing-after-another-command"]),
                      "delay": rng.choice([0.3, 0.6, 1.0])})
    asan = common.build_cicada("asan") if thorough else None
    rep.extra["sanitizer_pass"] = ("layer-2 lines also run on an AddressSanitizer build (nightly -Zsanitizer=address), "
                                   "halt_on_error=1: %d lines" % sum(1 for c in cases if c.get("binary") == "asan")) if thorough else "thorough tier only"
    results = common.pmap(_work, cases, init=_init, initargs=(cicada, nochecks, asan), chunksize=4)
    for case, (verdict, sig, res) in zip(cases, results):
        rep.case(json.dumps(case), True, sample=({"layer": 2, "line": case["line"], "mode": case["mode"]} if case["kind"] == "line" else
                                                  {"layer": 3, "keys": res.get("keys", [])[:20]}))
        rep.count("layer2_lines" if case["kind"] == "line" else "layer3_sessions")
        if verdict == "held":
            rep.hold()
        elif verdict == "violated":
            rep.violate(sig, case, res)
        else:
            rep.inconc(sig, res)
    rep.evaluations += l1_strings
    rep.held += l1_strings - sum(v[0]["detail"].get("count", 1) for s, v in rep.violations.items() if s.startswith("C05:inprocess"))
    rep.distinct |= {("l1", i) for i in range(l1_strings)}
    return rep.finish()


def replay(path):
    common.build_helpers()
    _init(common.build_cicada("debug"), common.build_cicada("nochecks"))
    with open(path) as f:
        data = json.load(f)
    bad = 0
    for c in data["cases"]:
        case = c["case"]
        if case.get("layer") == 1:
            print("layer-1 example:", repr(case["example"]), "- rerun ./check C05 to reproduce")
            bad = 1
            continue
        v, sig, res = _work(case)
        print(v, sig, json.dumps(res, default=str)[:800])
        if v == "violated":
            bad = 1
    if bad:
        print("VIOLATION property=C05 replay=%s" % path)
    return bad
