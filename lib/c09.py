"""C09 variables, exported environment and working directory follow scoping rules.

Monitor: after every operation of a random history a probe observer records (a) the values the
shell's expansions produce (its argv), (b) the environment the child actually received, (c) the
child's working directory; a `$?` probe follows every cd; files created through relative
redirections are located afterwards.  Oracle: a reference model (shell variables, exported
variables, cwd, previous dir) over a directory tree built by the driver."""
import json
import os

import common
from common import Report, Sandbox, run_cicada, crashed

_sb = None
NAMES = ["A", "B", "AB", "A_1", "PWDX"]
VALUES = {
    "plain": ["v1", "abc", "0"],
    "blank": ["two words", "a  b", " lead"],
    "quote": ["it's", 'say "hi"'],
    # values that begin and end with a quote character of the other kind than the one they are written in
    "quote-at-both-ends": ["'x y'", '"z w"', "'q=r:s'", "'", '"'],
    "equals": ["k=v", "=", "a=b=c"],
    "colon": ["/x:/y", ":"],
    "empty": [""],
}


def _init(cicada):
    global _sb
    _sb = Sandbox(cicada, "c09")


def quote_value(v):
    if v == "":
        return "''" if True else ""
    if "'" in v:
        return '"' + v + '"'
    return "'" + v + "'"


class Model:
    def __init__(self, root, home, exported):
        self.local = {}
        self.exp = dict(exported)
        self.cwd = root
        self.prev = ""
        self.home = home

    def get(self, n):
        if n in self.exp:
            return self.exp[n]
        return self.local.get(n, "")

    def assign(self, n, v):
        if n in self.exp:
            self.exp[n] = v
        else:
            self.local[n] = v

    def export(self, n, v):
        self.exp[n] = v

    def unset(self, n):
        self.exp.pop(n, None)
        self.local.pop(n, None)

    def cd(self, target):
        """returns ok"""
        if target is None:
            dest = self.home
        elif target == "-":
            if not self.prev:
                return False
            dest = self.prev
        elif target.startswith("/"):
            dest = target
        else:
            dest = os.path.join(self.cwd, target)
        if not os.path.isdir(dest):
            return False
        dest = os.path.realpath(dest)
        if dest != self.cwd:
            self.prev = self.cwd
            self.cwd = dest
            self.exp["PWD"] = dest
        return True


def build_tree(sb):
    sb.clean_work()
    root = os.path.realpath(sb.work)
    for d in ("d1/d2", "d3", "sp ace"):
        os.makedirs(os.path.join(root, d))
    os.symlink("d1", os.path.join(root, "link"))
    os.symlink(os.path.join(root, "d1", "d2"), os.path.join(root, "d3", "abslink"))
    open(os.path.join(root, "file"), "w").close()
    return root


def gen_history(rng, n):
    ops = []
    for _ in range(n):
        k = rng.random()
        name = rng.choice(NAMES)
        cls = rng.choice(list(VALUES))
        v = rng.choice(VALUES[cls])
        if k < 0.3 and rng.random() < 0.3:
            # the value is not written between quotes: it is the value of another name (`N=$SRC`, `N=${SRC}`; what that
            # name holds then is the model's business), or its blanks are escaped one by one
            o = "assign" if k < 0.2 else "prefixed"
            if cls == "blank" and rng.random() < 0.4:
                ops.append({"op": o, "name": name, "value": v, "cls": cls, "form": "escaped-blanks"})
            else:
                ops.append({"op": o, "name": name, "src": rng.choice(NAMES), "cls": "copied", "form": rng.choice(["copy", "copy-brace", "copy-dq"])})
        elif k < 0.2:
            ops.append({"op": "assign", "name": name, "value": v, "cls": cls})
        elif k < 0.3:
            ops.append({"op": "prefixed", "name": name, "value": v, "cls": cls})
        elif k < 0.45:
            ops.append({"op": "export", "name": name, "value": v, "cls": cls})
        elif k < 0.55:
            ops.append({"op": "unset", "name": name})
        elif k < 0.65:
            names = rng.sample(NAMES, rng.choice([1, 2, 3]))
            nf = rng.choice([0, 1, 2, 3, 5])
            fields = [rng.choice(["f1", "x", "y=z", "w:w", "q"]) for _ in range(nf)]
            # (the line comes from a here-string, or from the first line of a file named with `<`)
            ops.append({"op": "read", "names": names, "fields": fields, "via": rng.choice(["here", "here", "file"]),
                        # runs of blanks between the fields that all go to the last name: the remainder is kept as it is
                        "wide": len(fields) > len(names) and rng.random() < 0.5})
        elif k < 0.95:
            t = rng.choice(["ABS:d1", "ABS:d1/d2", "ABS:d3", "d1", "d2", "d3", "..", "../..", "link", "link/d2", "d3/abslink",
                            "missing", "file", "d1/missing", None, "-", "-", ".", "ABS:", "'sp ace'", "ABS:link"])
            ops.append({"op": "cd", "target": t})
        else:
            ops.append({"op": "relredir"})
    return ops


def read_line_text(op):
    names, fields = op["names"], op["fields"]
    if not op.get("wide"):
        return " ".join(fields)
    head = fields[:len(names) - 1]
    return " ".join(head + ["   ".join(fields[len(names) - 1:])])


def render_op(op, root, k):
    o = op["op"]
    if o in ("assign", "prefixed"):
        form = op.get("form")
        if form == "copy":
            w = "$" + op["src"]
        elif form == "copy-brace":
            w = "${%s}" % op["src"]
        elif form == "copy-dq":
            w = '"$%s"' % op["src"]
        elif form == "escaped-blanks":
            w = op["value"].replace(" ", "\\ ")
        else:
            w = quote_value(op["value"])
        return "%s=%s" % (op["name"], w) + (" vp_argv PFX%d" % k if o == "prefixed" else "")
    if o == "export":
        return "export %s=%s" % (op["name"], quote_value(op["value"]))
    if o == "unset":
        return "unset %s" % op["name"]
    if o == "read" and op.get("via") == "file":
        return "read %s < %s" % (" ".join(op["names"]), os.path.join(root, "rd%d.txt" % k))
    if o == "read":
        return "read %s <<< \"%s\"" % (" ".join(op["names"]), read_line_text(op))
    if o == "cd":
        t = op["target"]
        if t is None:
            return "cd"
        if t.startswith("ABS:"):
            return "cd %s" % os.path.join(root, t[4:]).rstrip("/") if t[4:] else "cd %s" % root
        return "cd %s" % t
    if o == "relredir":
        return "vp_argv REL%d > rel%d.txt" % (k, k)
    raise ValueError(o)


def op_kind(op):
    o = op["op"]
    if o in ("assign", "prefixed", "export"):
        if op.get("form") in ("copy", "copy-brace", "copy-dq"):
            v = op.get("value", "")
            return "%s:value=copied-from-a-variable%s:%s" % (o, "-in-double-quotes" if op.get("form") == "copy-dq" else "", "with-blank" if " " in v else "with-quote-character" if ("'" in v or '"' in v) else "empty" if v == "" else "plain")
        return "%s:value=%s%s" % (o, op["cls"], ":written-with-escaped-blanks" if op.get("form") == "escaped-blanks" else "")
    if o == "read":
        return "read:" + op.get("via", "here")
    if o == "cd":
        t = op["target"]
        if t is None:
            return "cd:bare"
        if t == "-":
            return "cd:dash"
        if "missing" in t:
            return "cd:missing"
        if t == "file":
            return "cd:non-directory"
        if "link" in t:
            return "cd:via-symlink"
        if t.startswith("ABS:"):
            return "cd:absolute"
        if ".." in t:
            return "cd:dotdot"
        return "cd:relative"
    return o


def judge(case):
    sb = _sb
    root = build_tree(sb)
    sb.reset_log()
    ops = case["ops"]
    initial_exported = dict(case["exported"])
    m = Model(root, os.path.realpath(sb.home), dict(initial_exported, PWD=root))
    lines = []
    expect = []   # per op: dict of expectations
    for k, op in enumerate(ops):
        lines.append(render_op(op, root, k))
        o = op["op"]
        e = {"k": k}
        if op.get("form") in ("copy", "copy-brace", "copy-dq"):
            op["value"] = m.get(op["src"])
        if o == "assign":
            m.assign(op["name"], op["value"])
        elif o == "prefixed":
            child = dict(m.exp)
            child[op["name"]] = op["value"]
            e["prefixed_env"] = {n: child.get(n) for n in NAMES}
        elif o == "export":
            m.export(op["name"], op["value"])
        elif o == "unset":
            m.unset(op["name"])
        elif o == "read":
            names, fields = op["names"], op["fields"]
            if op.get("via") == "file":
                with open(os.path.join(root, "rd%d.txt" % k), "w") as f:
                    f.write(read_line_text(op) + "\nsecond line of the file\n")
            for i, nme in enumerate(names[:-1]):
                m.assign(nme, fields[i] if i < len(fields) else "")
            m.assign(names[-1], ("   " if op.get("wide") else " ").join(fields[len(names) - 1:]))
        elif o == "cd":
            t = op["target"]
            if t is not None and t.startswith("ABS:"):
                t = os.path.join(root, t[4:]).rstrip("/") if t[4:] else root
            if t is not None and t.startswith("'"):
                t = t.strip("'")
            ok = m.cd(t)
            e["cd_ok"] = ok
            lines.append("vp_argv ST%d $?" % k)
        elif o == "relredir":
            e["rel_file"] = os.path.join(m.cwd, "rel%d.txt" % k)
        lines.append('vp_argv P%d "$A" "$B" "$AB" "$A_1" "$PWDX" "$PWD"' % k)
        e["argv"] = [m.get(n) for n in NAMES] + [m.exp.get("PWD", "")]
        e["env"] = {n: m.exp.get(n) for n in NAMES + ["PWD"]}
        e["cwd"] = m.cwd
        expect.append(e)
    line = " ; ".join(lines)
    env_extra = dict(initial_exported)
    env_extra["PWD"] = root
    r = run_cicada(sb, ["-c", line], timeout=60.0, env_extra=env_extra, watch=NAMES + ["PWD"], cwd=root)
    recs = sb.records()
    res = {"script": lines, "rc": r.rc, "stderr": r.err.decode("utf-8", "replace")[-300:], "n_records": len(recs)}
    if r.timed_out:
        return ("inconclusive", "timeout", res)
    if crashed(r):
        return ("violated", "C09:shell-crash", res)
    byname = {}
    for x in recs:
        if x["name"] == "vp_argv" and len(x["argv"]) > 1:
            byname[x["argv"][1]] = x
    state_feats = set()
    for k, (op, e) in enumerate(zip(ops, expect)):
        kind = op_kind(op)

        def bad(what, detail):
            res["failed_at_op"] = k
            res["op"] = render_op(op, root, k)
            res["detail"] = detail
            was_exported = op.get("name") in case["exported"] or any(
                p["op"] == "export" and p["name"] == op.get("name") for p in ops[:k])
            extra = ""
            if op["op"] in ("assign", "unset", "prefixed", "read"):
                extra = ":name-exported-before=%s" % was_exported
            return ("violated", "C09:%s%s:%s" % (kind, extra, what), res)
        if op["op"] == "prefixed":
            p = byname.get("PFX%d" % k)
            if p is None:
                return bad("prefixed-command-did-not-run", None)
            got = {n: (p["env"].get(n)[0] if p["env"].get(n) else None) for n in NAMES}
            if got != e["prefixed_env"]:
                return bad("prefixed-command-environment", {"got": got, "want": e["prefixed_env"]})
        if op["op"] == "cd":
            st = byname.get("ST%d" % k)
            if st is None:
                return bad("status-probe-missing", None)
            code = st["argv"][2] if len(st["argv"]) > 2 else ""
            if e["cd_ok"] and code != "0":
                return bad("cd-status-nonzero-on-success", code)
            if not e["cd_ok"] and code == "0":
                return bad("cd-status-zero-on-failure", code)
        if op["op"] == "relredir":
            if not os.path.exists(e["rel_file"]):
                where = [os.path.join(dp, f) for dp, dn, fn in os.walk(root) for f in fn if f == "rel%d.txt" % k]
                return bad("relative-redirection-in-wrong-directory", {"want": e["rel_file"], "found": where})
        p = byname.get("P%d" % k)
        if p is None:
            return bad("probe-did-not-run", None)
        got_argv = p["argv"][2:]
        if got_argv[:5] != e["argv"][:5]:
            return bad("expansion-value", {"got": got_argv, "want": e["argv"]})
        if got_argv[5:6] != e["argv"][5:6]:
            return bad("PWD-expansion", {"got": got_argv[5:6], "want": e["argv"][5:6]})
        got_env = {n: (p["env"].get(n)[0] if p["env"].get(n) else None) for n in NAMES + ["PWD"]}
        if {n: got_env[n] for n in NAMES} != {n: e["env"][n] for n in NAMES}:
            return bad("child-environment", {"got": got_env, "want": e["env"]})
        if got_env["PWD"] != e["env"]["PWD"]:
            return bad("child-PWD", {"got": got_env["PWD"], "want": e["env"]["PWD"]})
        if p["cwd"] != e["cwd"]:
            return bad("child-cwd", {"got": p["cwd"], "want": e["cwd"]})
        dup = [n for n in NAMES if p["env"].get(n) and p["env"][n][1] > 1]
        if dup and op["op"] != "prefixed":
            return bad("variable-twice-in-child-environment", dup)
    return ("held", None, res)


def _work(case):
    try:
        return judge(case)
    except Exception as e:
        import traceback
        return ("inconclusive", "harness: %r %s" % (e, traceback.format_exc()[-500:]), {})


def run(tier, seed):
    common.build_helpers()
    cicada = common.build_cicada("debug")
    rep = Report("C09", tier, seed)
    rep.rule = ("random histories (<=30 ops) of NAME=v / NAME=v cmd (v between quotes, or with escaped blanks, or $OTHER / ${OTHER}) / export / unset / read (<<< word, or < file) / cd (absolute, relative, "
                "'..', via symlinks, missing, non-directory, bare, '-', '.') / relative redirection over names "
                "{A,B,AB,A_1,PWDX} and values with blanks, both quote kinds, '=', ':' and the empty string, some names "
                "exported by the driver beforehand; a probe after every operation.  Non-trivial = at least 2 operations; "
                "distinct by history.")
    rep.assumptions = ["model in lib/c09.py: a failed or no-op cd leaves previous-dir alone; symlinks are resolved "
                       "(os.path.realpath) as `cd` canonicalises", "read input fields are separated by single blanks"]
    rng = common.rng_for(seed, "C09")
    n = 12000 if tier == "thorough" else 1500
    cases = []
    for _ in range(n):
        exported = {}
        for nme in NAMES:
            if rng.random() < 0.25:
                exported[nme] = rng.choice(["E0", "e x", ""])
        cases.append({"ops": gen_history(rng, rng.randint(2, 30)), "exported": exported})
    results = common.pmap(_work, cases, init=_init, initargs=(cicada,), chunksize=2)
    kinds = {}
    for case, (verdict, sig, res) in zip(cases, results):
        rep.case(json.dumps(case, sort_keys=True), len(case["ops"]) > 1, sample={"script": res.get("script", [])[:8]})
        rep.count("probe_records", res.get("n_records", 0))
        for op in case["ops"]:
            kinds[op_kind(op)] = kinds.get(op_kind(op), 0) + 1
        if verdict == "held":
            rep.hold()
        elif verdict == "violated":
            rep.violate(sig, case, res)
        else:
            rep.inconc(sig, res)
    rep.extra["operation_kinds_exercised"] = kinds
    return rep.finish()


def replay(path):
    common.build_helpers()
    cicada = common.build_cicada("debug")
    _init(cicada)
    with open(path) as f:
        data = json.load(f)
    bad = 0
    for c in data["cases"]:
        v, sig, res = judge(c["case"])
        print(v, sig, json.dumps(res, default=str)[:800])
        if v == "violated":
            bad = 1
    if bad:
        print("VIOLATION property=C09 replay=%s" % path)
    return bad
