"""C06 the job table tracks exactly the live jobs under every order of child events.

The real Shell job methods, wait_fg_job, try_wait_bg_jobs and handle_sigchld run inside the
harness against a virtual kernel: child status changes are injected through the cfg-guarded
waitpid hook, the scheduler's choices (which event happens, which pending notification a wait
receives, where it is delivered: foreground wait or prompt-time poll) are enumerated depth-first
up to a bound and sampled by random walks beyond it, and an online reference model judges the
table after every poll and every return of the foreground wait (harness/src/c06.rs)."""
import json
import os
import subprocess
import time

import common
from common import Report

# (events, jobs alive, procs per job, launches)
QUICK = {"exhaustive": (3, 2, 2, 2), "deep": (6, 2, 3, 3), "deep_budget": 12000, "walk": (9, 3, 3, 4), "walks": 12000}
THOROUGH = {"exhaustive": (4, 2, 2, 2), "deep": (8, 3, 3, 3), "deep_budget": 400000, "walk": (11, 3, 3, 5), "walks": 40000}


def run_shards(harness, argsets):
    procs = []
    for a in argsets:
        procs.append(common.FileProc([harness] + [str(x) for x in a]))
    outs = []
    for p in procs:
        o, _ = p.communicate()
        if p.returncode != 0:
            raise common.InfraError("harness exited %s" % p.returncode)
        outs.append(json.loads(o.decode()))
    return outs


def _trace_session(args):
    """a real interactive session (C07's driver) with CICADA_VERIF_TRACE on: returns the statuses the shell
    actually consumed from the kernel"""
    cicada, sseed, nactions = args
    import c07
    sb = common.Sandbox(cicada, "c06tr")
    trace = os.path.join(sb.root, "wait.trace")
    try:
        rng = common.rng_for(sseed, "c06trace")
        orig_env = sb.env

        def env(extra=None, watch=None, budget=20000):
            e = orig_env(extra, watch, budget)
            e["CICADA_VERIF_TRACE"] = trace
            return e
        sb.env = env
        ses = c07.Session(sb, rng, False)
        try:
            ses.run(nactions)
        except (c07.Violation, c07.Inconclusive):
            pass
        finally:
            ses.s.close()
            import signal as _sig
            for x in sb.records():
                if x["name"] == "vp_job" and x["kind"] == "start":
                    try:
                        os.kill(x["pid"], _sig.SIGKILL)
                    except OSError:
                        pass
        lines = open(trace).read().split("\n") if os.path.exists(trace) else []
        return [l.split() for l in lines if l.strip()]
    finally:
        sb.close()


def conforms(trace):
    """can the virtual kernel of harness/src/c06.rs emit this sequence?  Per child: any number of
    stopped/continued notifications, then at most one termination, nothing afterwards; ECHILD only when
    every child seen so far has terminated."""
    state = {}
    for rec in trace:
        if len(rec) < 5:
            return "garbled record %r" % (rec,)
        _shell, kind, pid, _val, _nohang = rec[:5]
        if kind in ("stillalive", "other"):
            continue
        if kind == "error":
            if rec[3] == "10" and any(v != "terminated" for v in state.values()):      # ECHILD
                return "ECHILD while a child was not reaped"
            continue
        if state.get(pid) == "terminated":
            return "status %s for already reaped child %s" % (kind, pid)
        if kind in ("exited", "signaled"):
            state[pid] = "terminated"
        elif kind in ("stopped", "continued"):
            state[pid] = kind
        else:
            return "unknown status kind %s" % kind
    return None


def run(tier, seed):
    harness = common.build_harness()
    rep = Report("C06", tier, seed)
    cfg = THOROUGH if tier == "thorough" else QUICK
    n = common.NPROC
    phases = []
    ex = cfg["exhaustive"]
    phases.append(("exhaustive", [["c06", "dfs", ex[0], ex[1], ex[2], ex[3], i, n, 10 ** 9] for i in range(n)], ex))
    dp = cfg["deep"]
    phases.append(("deep", [["c06", "dfs", dp[0], dp[1], dp[2], dp[3], i, n, cfg["deep_budget"]] for i in range(n)], dp))
    wk = cfg["walk"]
    phases.append(("walk", [["c06", "walk", seed * 1000 + i, cfg["walks"], wk[0], wk[1], wk[2], wk[3]] for i in range(n)], wk))
    # the same three phases with the SIGCHLD handler enabled (CICADA_ENABLE_SIG_HANDLER=1): statuses are consumed by the
    # asynchronous handler (its run is a scheduler choice) and parked; the poll only applies what is parked
    phases.append(("exhaustive-handler", [["c06", "dfs", ex[0], ex[1], ex[2], ex[3], i, n, 10 ** 9, "handler"] for i in range(n)], ex))
    phases.append(("deep-handler", [["c06", "dfs", dp[0], dp[1], dp[2], dp[3], i, n, cfg["deep_budget"] // 2, "handler"] for i in range(n)], dp))
    phases.append(("walk-handler", [["c06", "walk", seed * 1000 + 500 + i, cfg["walks"] // 2, wk[0], wk[1], wk[2], wk[3], "handler"] for i in range(n)], wk))
    total_exec = total_states = 0
    completed = 0
    samples = []
    summary = {}
    for name, argsets, bound in phases:
        t0 = time.time()
        outs = run_shards(harness, argsets)
        ph = {"bound(events,jobs,procs,launches)": list(bound), "executions": sum(o["executions"] for o in outs),
              "distinct_states": sum(o["states"] for o in outs), "max_depth": max(o["max_depth"] for o in outs),
              "completed_schedules": sum(o["completed_schedules"] for o in outs),
              "schedules_ending_blocked_in_foreground_wait": sum(o["blocked_in_fg_wait_at_end"] for o in outs),
              "exhausted": all(o["exhausted"] for o in outs), "wall_s": round(time.time() - t0, 1),
              "job_shapes": sorted({s for o in outs for s in o["shapes"]})}
        summary[name] = ph
        total_exec += ph["executions"]
        total_states += ph["distinct_states"]
        completed += ph["completed_schedules"]
        for o in outs:
            for s in o["samples"][:1]:
                if len(samples) < 6:
                    samples.append({"phase": name, "schedule": s})
            for v in o["violations"]:
                sig = v["signature"]
                # the position of the check (after=...) is context, not identity
                if name.endswith("-handler"):
                    sig += ":sigchld-handler-mode"
                rep.violate(sig, {"phase": name, "bound": list(bound), "path": v["path"], "handler": name.endswith("-handler")},
                            {"count": v["count"], "detail": v["detail"]})
    rep.evaluations = total_exec
    rep.held = total_exec - sum(len(v) for v in rep.violations.values())
    rep.distinct = set(range(total_states))
    rep.samples = samples
    rep.rule = ("schedules = sequences of scheduler choices {launch fg/bg pipeline of 1..3 processes (pids far above pid_max and not "
                "monotonic), child event stop/continue/exit 0/exit 3/kill on any process, delivery of any pending notification to "
                "the blocked foreground wait, prompt-time poll, fg, bg; in the -handler phases also a run of the asynchronous SIGCHLD handler, which parks what it drains}; exhaustive depth-first enumeration within the first bound, "
                "budgeted depth-first within the second, random walks within the third (bounds in coverage.phases).  Every "
                "execution re-runs the real code from a fresh Shell.  distinct_nontrivial = distinct (kernel state, job table, "
                "parked-event maps) states reached, summed over shards.")
    rep.assumptions = ["virtual kernel: one pending stop/continue notification per process, a continue overwrites an unreported "
                       "stop, termination always reported, waitpid(-1) returns any pending one (the explorer chooses)",
                       "fg/bg builtins are emulated without tcsetpgrp/killpg (their table operations are the real ones)"]
    # conformance of the virtual kernel: real wait statuses recorded from live pty sessions must be
    # sequences the model can emit
    common.build_helpers()
    cicada = common.build_cicada("debug")
    nsess = 96 if tier == "thorough" else 24
    traces = common.pmap(_trace_session, [(cicada, seed * 7919 + i, 12) for i in range(nsess)], chunksize=1)
    validated = statuses = 0
    for tr in traces:
        if not tr:
            continue
        bad = conforms(tr)
        statuses += len(tr)
        if bad:
            rep.violate("C06:kernel-model:real-trace-not-emittable-by-the-virtual-kernel", {"trace": tr[:40]}, {"why": bad})
        else:
            validated += 1
    rep.extra["traces_validated_against_impl"] = validated
    rep.extra["real_wait_statuses_in_those_traces"] = statuses
    rep.extra["phases"] = summary
    rep.extra["states"] = total_states
    rep.extra["transitions"] = total_exec
    rep.extra["completed_schedules"] = completed
    rep.extra["exhaustive"] = summary["exhaustive"]["exhausted"]
    return rep.finish()


def replay(path):
    harness = common.build_harness()
    with open(path) as f:
        data = json.load(f)
    bad = 0
    for c in data["cases"]:
        b = c["case"]["bound"]
        o = subprocess.run([harness, "c06", "replay", str(b[0]), str(b[1]), str(b[2]), str(b[3]),
                            ",".join(str(x) for x in c["case"]["path"])] + (["handler"] if c["case"].get("handler") else []),
                           capture_output=True, text=True)
        print(o.stdout[:2000])
        if '"violations":[]' not in o.stdout:
            bad = 1
    if bad:
        print("VIOLATION property=C06 replay=%s" % path)
    return bad
