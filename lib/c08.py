"""C08 no descriptor leaks, in the shell or into children.

Monitors: (1) every spawned helper reports the descriptors it finds open as its first action
(scan before it opens anything); (2) `vp_snap`, run between commands, reads /proc/<shell>/fd while
the shell is blocked waiting for it (a quiescent snapshot of the shell's table).  Workloads: random
scripts mixing pipelines, redirections, builtins, captures, here-strings, failures, background
jobs; and a fault sweep over RLIMIT_NOFILE = 4..40 set with the `ulimit` builtin before a pipeline."""
import json
import os

import common
from common import Report, Sandbox, run_cicada, crashed

_sb = None


def _init(cicada):
    global _sb
    _sb = Sandbox(cicada, "c08")


REDIRS = ["> f1", ">> f1", "2> f2", "2>> f2", "2>&1", "1>&2", ">&2", "> f1 2>&1", "2>&1 > f1", "< fin", ">f3", "2>f3 >&2"]


def gen_cmd(rng, k, script_mode):
    """returns (text, kind, features)"""
    kind = rng.choice(["pipe", "pipe", "redir", "builtin", "capture", "capture", "here", "fail", "bg", "state"])
    tag = "@%d" % k
    if kind == "state":
        # commands that go through other code paths of the shell: source, function call, read, assignment prefix,
        # a list with && / ||, history, arithmetic
        t = rng.choice(["source %s/inc.sh" % "$VP_INC", "read RV%d <<< w%d" % (k, k), "RV%d=1 vp_argv e %s" % (k, tag),
                        "vp_status 1 %s && vp_argv n %s || vp_argv y %s" % (tag, tag, tag), "history", "1 + 2 * 3",
                        "cd . ; vp_argv c %s" % tag, "unset RV%d" % k, "export PX%d=$(vp_out K %s)" % (k, tag)] +
                       (["myfn a " + tag, "myfn a %s > f1" % tag, "myfn a %s | vp_st snk %s" % (tag, tag)] if script_mode else []))
        return t, kind, ["t=" + t.split()[0]]
    if kind == "pipe":
        n = rng.randint(1, 6)
        st = []
        for i in range(n):
            if i == 0:
                st.append(rng.choice(["vp_st src %d 3 %s" % (rng.choice([0, 10, 70000]), tag), "vp_argv a %s" % tag,
                                      "vp_out K %s" % tag]))
            elif i == n - 1:
                st.append(rng.choice(["vp_st snk %s" % tag, "vp_io P%d %s" % (k, tag), "vp_argv z %s" % tag]))
            else:
                st.append(rng.choice(["vp_st flt %d %s" % (i, tag), "vp_io M%d %s" % (k, tag)]))
        red = ""
        feats = ["n=%d" % min(n, 3)]
        if rng.random() < 0.4:
            r = rng.choice(REDIRS)
            pos = rng.randrange(n)
            st[pos] += " " + r
            feats += ["redir=" + r.replace(" ", ""), "redirpos=" + ("last" if pos == n - 1 else "nonlast")]
        return " | ".join(st) + red, kind, feats
    if kind == "redir":
        r = " ".join(rng.sample(REDIRS, rng.randint(1, 2)))
        return "vp_io R%d %s %s" % (k, tag, r), kind, ["redir=" + r.replace(" ", "")]
    if kind == "builtin":
        b = rng.choice(["alias", "alias q=vp_b", "minfd", "jobs", "unalias q", "alias nosuch", "cd .", "export E=1",
                        "set -h"])
        r = rng.choice(["", "", " > f1", " 2>&1", " >&2", " 2> f2", " > f1 2>&1", " | vp_st snk " + tag])
        return b + r, kind, ["b=" + b.split()[0], "redir=" + r.strip().replace(" ", "")]
    if kind == "capture":
        inner = rng.choice(["vp_out K " + tag, "vp_out K %s | vp_st flt 0 %s" % (tag, tag), "alias", "minfd",
                            "vp_status 2 " + tag, "vp_nonexistent", "vp_out K %s 2>&1" % tag,
                            # the captured command has redirections of its own
                            "vp_out K %s > cf1" % tag, "vp_out K %s 2> cf2" % tag, "vp_out K %s > cf1 2> cf2" % tag,
                            "vp_out K %s >> cf1" % tag, "vp_out K %s | vp_io C %s > cf1" % (tag, tag), "vp_io C %s <<< w 2> cf2" % tag,
                            "vp_out K %s | vp_io C %s | vp_st flt 0 %s" % (tag, tag, tag),
                            # a builtin that itself starts programs while its own output is being captured
                            "source $VP_INC/inc.sh",
                            # captured output (and captured error output) that is not text: the capture ends on its error path
                            "vp_out B " + tag, "vp_out B %s 2>&1" % tag, "vp_out B %s | vp_st flt 0 %s" % (tag, tag),
                            "vp_out B %s 2> cf2" % tag, "vp_out B %s > cf1" % tag] +
                           (["myfn a " + tag] if script_mode else []))
        form = rng.choice(["$(%s)", "`%s`", "x$(%s)y", "\"$(%s)\""])
        outer = rng.choice(["vp_argv %s " + tag, "vp_argv %s " + tag + " | vp_st snk " + tag, "V=%s"])
        feats = ["inner=" + inner.split()[0], "form=" + form[0]]
        if inner.startswith("vp_out B "):
            feats.append("captured-output-undecodable")
        if " cf" in inner:
            feats.append("inner-redirected=" + "+".join(w for w in inner.split() if w in (">", ">>", "2>")))
        return outer % (form % inner), kind, feats
    if kind == "here":
        return "vp_io H%d %s <<< word%d" % (k, tag, k), kind, []
    if kind == "fail":
        t = rng.choice(["vp_status 3 " + tag, "vp_nonexistent_cmd", "vp_io X %s > nodir/x" % tag,
                        "vp_io X %s < missing" % tag, "vp_io X %s 2>&1 > nodir/x" % tag, "vp_argv a %s | vp_nonexistent | vp_st snk %s" % (tag, tag)])
        return t, kind, ["t=" + t.split()[0]]
    if rng.random() < 0.4:
        # a builtin sent to the background still runs inside the shell: it must not give away the shell's descriptors
        b = rng.choice(["alias &", "minfd &", "alias > f1 &", "alias nosuch &", "jobs &", "alias q=vp_b &"])
        return b, "bg", ["builtin-bg"]
    return "vp_job B%d 0.05 %s &" % (k, tag), "bg", []


def gen_script(rng, nmax):
    script_mode = rng.random() < 0.5
    n = rng.randint(1, nmax)
    cmds = [gen_cmd(rng, k, script_mode) for k in range(n)]
    return {"script_mode": script_mode, "cmds": cmds}


def run_script(sb, case):
    sb.reset_log()
    sb.clean_work()
    with open(os.path.join(sb.work, "fin"), "w") as f:
        f.write("input\n")
    with open(os.path.join(sb.vpdir, "out.K"), "w") as f:
        f.write("kout\n")
    with open(os.path.join(sb.vpdir, "out.B"), "wb") as f:
        f.write(b"\xff\xfeb\xe9t\n")
    with open(os.path.join(sb.vpdir, "err.B"), "wb") as f:
        f.write(b"\xfferr\x80\n")
    with open(os.path.join(sb.root, "inc.sh"), "w") as f:
        f.write("vp_argv inc @0\nvp_out K @0 | vp_st snk @0\nSV=1\n")
    lines = ["vp_snap S"]
    for i, (text, kind, feats) in enumerate(case["cmds"]):
        lines.append(text)
        lines.append("vp_snap S%d" % i)
    if case["script_mode"]:
        body = "function myfn {\n    vp_out K $1\n}\n" + "\n".join(lines) + "\n"
        path = os.path.join(sb.root, "s.sh")
        with open(path, "w") as f:
            f.write(body)
        r = run_cicada(sb, [path], timeout=60, env_extra={"VP_INC": sb.root})
    else:
        r = run_cicada(sb, ["-c", " ; ".join(lines)], timeout=60, env_extra={"VP_INC": sb.root})
    return r, sb.records()


def judge_script(case, reduce=True):
    sb = _sb
    r, recs = run_script(sb, case)
    res = {"script": [c[0] for c in case["cmds"]], "mode": "script" if case["script_mode"] else "-c", "rc": r.rc,
           "n_records": len(recs), "stderr": r.err.decode("utf-8", "replace")[-300:]}
    if r.timed_out:
        return ("inconclusive", "timeout", res)
    c = crashed(r)
    if c:
        return ("violated", "C08:shell-crash:" + c.split(" ")[0], res)
    snaps = [x for x in recs if x["name"] == "vp_snap"]
    if len(snaps) != len(case["cmds"]) + 1:
        res["snaps"] = len(snaps)
        return ("violated", "C08:shell-stopped-working:snapshots-missing", res)
    base = sorted(snaps[0]["pfds"])
    res["baseline_shell_fds"] = base
    bad_cmd = None
    rule = None
    # children
    for x in recs:
        if x["kind"] != "start" or x["name"] == "vp_snap":
            continue
        if x["open_fds"] != [0, 1, 2]:
            tag = [a for a in x["argv"] if a.startswith("@")]
            k = int(tag[0][1:]) if tag else None
            res["child_record"] = {"argv": x["argv"], "open_fds": x["open_fds"]}
            bad_cmd, rule = k, "child-inherits-extra-fd"
            break
    if bad_cmd is None and rule is None:
        for i in range(1, len(snaps)):
            if sorted(snaps[i]["pfds"]) != base:
                res["shell_fds_after"] = sorted(snaps[i]["pfds"])
                bad_cmd, rule = i - 1, "shell-fd-table-changed"
                break
    if rule is None:
        return ("held", None, res)
    if bad_cmd is None:
        return ("violated", "C08:%s:unattributed" % rule, res)
    text, kind, feats = case["cmds"][bad_cmd]
    res["offending_command"] = text
    # confirm on the single command (deterministic, minimal signature)
    if reduce and len(case["cmds"]) > 1:
        v2, sig2, res2 = judge_script({"script_mode": case["script_mode"], "cmds": [case["cmds"][bad_cmd]]}, False)
        if v2 == "violated":
            res["minimal"] = res2
            return (v2, sig2, res)
        return ("violated", "C08:%s:only-in-sequence:kind=%s" % (rule, kind), res)
    return ("violated", "C08:%s:kind=%s:%s" % (rule, kind, ",".join(feats)), res)


SHAPES = [
    ("plain", lambda n: " | ".join(["vp_argv a @0"] + ["vp_st flt %d @0" % i for i in range(1, n - 1)] + (["vp_st snk @0"] if n > 1 else []))),
    ("capture", lambda n: "vp_argv $(" + " | ".join(["vp_out K @0"] + ["vp_st flt 0 @0"] * (n - 1)) + ") @0"),
    ("redir", lambda n: " | ".join(["vp_argv a @0"] + ["vp_st flt %d @0" % i for i in range(1, n - 1)] + (["vp_io L @0 > f1 2>&1"] if n > 1 else [])) if n > 1 else "vp_io L @0 > f1 2>&1"),
    ("here", lambda n: " | ".join(["vp_io H @0 <<< w"] + ["vp_st flt %d @0" % i for i in range(1, n)])),
    ("backquote", lambda n: "vp_argv `" + " | ".join(["vp_out K @0"] + ["vp_st flt 0 @0"] * (n - 1)) + "` @0"),
    ("builtin", lambda n: " | ".join(["alias"] + ["vp_st flt %d @0" % i for i in range(1, n)])),
    # the same resources acquired by a stage that is not the first: its error paths hold the neighbours' pipe ends
    ("here-mid", lambda n: " | ".join(["vp_argv a @0", "vp_io H @0 <<< w"] + ["vp_st flt %d @0" % i for i in range(2, n)])),
    ("here-last", lambda n: " | ".join(["vp_argv a @0"] + ["vp_st flt %d @0" % i for i in range(1, n - 1)] + ["vp_io H @0 <<< w"])),
    ("infile-mid", lambda n: " | ".join(["vp_argv a @0", "vp_io H @0 < fin"] + ["vp_st flt %d @0" % i for i in range(2, n)])),
    ("redir-mid", lambda n: " | ".join(["vp_argv a @0", "vp_io L @0 2> f1"] + ["vp_st flt %d @0" % i for i in range(2, n)])),
    ("builtin-mid", lambda n: " | ".join(["vp_argv a @0", "alias"] + ["vp_st flt %d @0" % i for i in range(2, n)])),
    ("builtin-alone-redir", lambda n: "alias > f1 2> f2"),
    # a builtin that prints on stdout with only its stderr redirected (and the other way round): the target is opened first,
    # then the other stream is dupped
    ("builtin-alone-stderr-only", lambda n: "alias 2> f2"),
    ("builtin-alone-stdout-only", lambda n: "minfd > f1"),
    ("builtin-alone-dups", lambda n: "alias 2> f2 1>&2"),
    ("capture-here", lambda n: "vp_argv $(" + " | ".join(["vp_out K @0"] + ["vp_io H @0 <<< w"] * (n - 1)) + ") @0"),
]


def judge_sweep(case):
    sb = _sb
    sb.reset_log()
    sb.clean_work()
    with open(os.path.join(sb.vpdir, "out.K"), "w") as f:
        f.write("kout\n")
    with open(os.path.join(sb.work, "fin"), "w") as f:
        f.write("input\n")
    limit, shape, n = case["limit"], case["shape"], case["n"]
    body = dict(SHAPES)[shape](n)
    line = "vp_snap B ; ulimit -n %d ; %s ; vp_argv ST $? ; ulimit -n 256 ; vp_snap A ; vp_argv SENTINEL" % (limit, body)
    r = run_cicada(sb, ["-c", line], timeout=30)
    recs = sb.records()
    res = {"line": line, "rc": r.rc, "stderr": r.err.decode("utf-8", "replace")[-400:], "n_records": len(recs)}
    feat = "shape=%s" % shape
    if r.timed_out:
        res["diag"] = r.diag
        if r.diag and all(p["cpu_ticks"] == 0 for p in r.diag["procs"]):
            return ("violated", "C08:sweep-hang:%s" % feat, res)
        return ("inconclusive", "timeout", res)
    c = crashed(r)
    if c:
        return ("violated", "C08:sweep-shell-crash:%s:%s" % (feat, c.split(" ")[0]), res)
    snaps = {x["argv"][1]: x for x in recs if x["name"] == "vp_snap" and len(x["argv"]) > 1}
    sent = [x for x in recs if x["name"] == "vp_argv" and x["argv"][1:2] == ["SENTINEL"]]
    st = [x for x in recs if x["name"] == "vp_argv" and x["argv"][1:2] == ["ST"]]
    if not sent or "A" not in snaps or "B" not in snaps:
        return ("violated", "C08:sweep-shell-stopped-working:%s" % feat, res)
    if sorted(snaps["A"]["pfds"]) != sorted(snaps["B"]["pfds"]):
        res["before"], res["after"] = sorted(snaps["B"]["pfds"]), sorted(snaps["A"]["pfds"])
        return ("violated", "C08:sweep-shell-fd-table-changed:%s" % feat, res)
    stage_recs = [x for x in recs if x["kind"] == "start" and "@0" in x["argv"]]
    for x in stage_recs + sent + st:
        if x["open_fds"] != [0, 1, 2]:
            res["child_record"] = {"argv": x["argv"], "open_fds": x["open_fds"]}
            return ("violated", "C08:sweep-child-inherits-extra-fd:%s" % feat, res)
    pipe_failed = b"cicada: pipeline" in r.err
    res["pipe_creation_failed"] = pipe_failed
    if pipe_failed and shape in ("plain", "redir", "here", "builtin", "here-mid", "here-last", "infile-mid", "redir-mid", "builtin-mid"):
        # the failing pipeline is the top-level one: it must fail as a whole
        if b"pipeline1" in r.err and stage_recs:
            return ("violated", "C08:sweep-stages-ran-despite-pipe-failure:%s" % feat, res)
        if b"pipeline1" in r.err and (not st or st[0]["argv"][2:3] == ["0"]):
            return ("violated", "C08:sweep-status-zero-despite-pipe-failure:%s" % feat, res)
    return ("held", None, res)


def judge_valgrind(case):
    """second observer for the shell side (thorough): valgrind --track-fds lists descriptors still open when
    the shell exits, with the stack that created them; inherited ones are marked as such"""
    import subprocess
    sb = _sb
    sb.reset_log()
    sb.clean_work()
    with open(os.path.join(sb.work, "fin"), "w") as f:
        f.write("input\n")
    with open(os.path.join(sb.vpdir, "out.K"), "w") as f:
        f.write("kout\n")
    lines = [c[0] for c in case["cmds"] if c[1] != "bg"]
    env = sb.env()
    env["VP_INC"] = sb.root
    if case.get("script_mode"):
        # (the generated lines of a script-mode case call the function the script defines)
        path = os.path.join(sb.root, "sv.sh")
        with open(path, "w") as f:
            f.write("function myfn {\n    vp_out K $1\n}\n" + "\n".join(lines) + "\n")
        argv = [sb.cicada, path]
    else:
        argv = [sb.cicada, "-c", " ; ".join(lines)]
    with open(os.path.join(sb.root, "inc.sh"), "w") as f:
        f.write("vp_argv inc @0\nvp_out K @0 | vp_st snk @0\nSV=1\n")
    p = subprocess.Popen(["/usr/bin/valgrind", "--track-fds=yes", "--error-exitcode=0"] + argv,
                         cwd=sb.work, env=env, stdin=subprocess.DEVNULL, stdout=subprocess.PIPE, stderr=subprocess.PIPE)
    try:
        _, perr = p.communicate(timeout=300)
    except subprocess.TimeoutExpired:
        p.kill()
        p.communicate()
        return ("inconclusive", "valgrind run timed out", {"script": lines})
    # only the report of the shell process itself: a forked child that fails to exec (command not found) prints a report of
    # its own, with the redirection targets it had opened for the program it could not start
    tag = "==%d== " % p.pid
    err = "\n".join(l for l in perr.decode("utf-8", "replace").split("\n") if l.startswith(tag) or l.strip() == tag.strip())
    res = {"script": lines, "mode": "valgrind script" if case.get("script_mode") else "valgrind -c", "shell_pid": p.pid}
    import re as _re
    blocks = _re.split(r"(?m)^==\d+== Open file descriptor ", err)[1:]
    mine = [b for b in blocks if "<inherited from parent>" not in b.split("==\n")[0] and "inherited from parent" not in b[:300]]
    summ = _re.findall(r"==(\d+)== FILE DESCRIPTORS: (\d+) open \((\d+) std\) at exit", err)
    res["valgrind_fd_summary"] = summ[-1:]
    if not summ:
        return ("inconclusive", "valgrind printed no descriptor summary", res)
    res["open_at_exit"] = [b.split("\n")[0] for b in blocks]
    if mine:
        first = mine[0]
        where = _re.search(r"by 0x[0-9A-F]+: (cicada::[\w:]+)", first)
        res["valgrind"] = first[:600]
        return ("violated", "C08:valgrind:descriptor-open-at-shell-exit:created-in=%s" % (where.group(1) if where else "?"), res)
    return ("held", None, res)


def _work(item):
    kind, case = item
    try:
        if kind == "valgrind":
            return judge_valgrind(case)
        if kind == "script":
            return judge_script(case)
        return judge_sweep(case)
    except Exception as e:
        import traceback
        return ("inconclusive", "harness: %r %s" % (e, traceback.format_exc()[-400:]), {})


def run(tier, seed):
    common.build_helpers()
    cicada = common.build_cicada("debug")
    rep = Report("C08", tier, seed, level="fault_enumeration")
    rep.rule = ("(a) random scripts of 1..30 commands (pipelines 1..6, redirections, builtins +/- redirection, "
                "$()/backquote captures of externals/builtins/functions/pipelines, here-strings, failing and "
                "not-found commands, background jobs) with a shell snapshot after every command, run as script "
                "file or -c; (b) fault enumeration: RLIMIT_NOFILE = 4..40 x 6 pipeline shapes x 1..6 stages. "
                "Non-trivial = more than one command or a fault injected; distinct by full case.")
    rep.assumptions = ["vp_snap reads /proc/<ppid>/fd while the shell is blocked in wait4 on it",
                       "helpers scan fds 0..1023 with fcntl before opening anything"]
    rng = common.rng_for(seed, "C08")
    thorough = tier == "thorough"
    items = []
    for _ in range(4000 if thorough else 400):
        items.append(("script", gen_script(rng, 30)))
    if thorough:
        for _ in range(160):
            items.append(("valgrind", gen_script(rng, 8)))
    for limit in range(4, 41):
        for shape, _ in SHAPES:
            for n in (range(1, 7) if thorough else [1, 2, 3, 6]):
                items.append(("sweep", {"limit": limit, "shape": shape, "n": n}))
    results = common.pmap(_work, items, init=_init, initargs=(cicada,), chunksize=2)
    faults_hit = 0
    limits = set()
    for (kind, case), (verdict, sig, res) in zip(items, results):
        if kind == "valgrind":
            rep.case(json.dumps(case), True, sample={"mode": "valgrind --track-fds", "script": res.get("script", [])[:4],
                                                    "open_at_exit": res.get("open_at_exit")})
            rep.count("valgrind_track_fds_runs")
        elif kind == "script":
            rep.case(json.dumps(case), len(case["cmds"]) > 1,
                     sample={"mode": res.get("mode"), "script": res.get("script", [])[:6], "n_records": res.get("n_records")})
            rep.count("scripts")
            rep.count("helper_records_checked", res.get("n_records", 0))
        else:
            rep.case(json.dumps(case), True, sample={"line": res.get("line"), "pipe_creation_failed": res.get("pipe_creation_failed")}
                     if case["limit"] in (5, 9) and case["n"] == 3 else None)
            rep.count("sweep_runs")
            limits.add(case["limit"])
            if res.get("pipe_creation_failed"):
                faults_hit += 1
        if verdict == "held":
            rep.hold()
        elif verdict == "violated":
            rep.violate(sig, case, res)
        else:
            rep.inconc(sig, res)
    rep.extra["rlimit_values_enumerated"] = sorted(limits)
    rep.extra["runs_where_pipe_creation_actually_failed"] = faults_hit
    return rep.finish()


def replay(path):
    common.build_helpers()
    cicada = common.build_cicada("debug")
    _init(cicada)
    with open(path) as f:
        data = json.load(f)
    bad = 0
    for c in data["cases"]:
        case = c["case"]
        v, sig, res = judge_sweep(case) if "limit" in case else judge_script(case)
        print(v, sig, json.dumps(res, default=str)[:1000])
        if v == "violated":
            bad = 1
    if bad:
        print("VIOLATION property=C08 replay=%s" % path)
    return bad
