"""C02 pipelines: every byte delivered, EOF propagates, each stage started once, the shell
resumes only after all stages ended, status = last stage's.

Monitor: every stage is an instrumented helper (vp_st) that logs a start record, counts and
hashes the bytes it reads/writes and logs an end record right before exiting; the command that
follows the pipeline (vp_snap) logs the $? it was given, the shell's remaining children and the
shell's fd table.  The offline checker judges exactly-once, per-link conservation, ordering
(all end records before the shell's next command), leftover children and the status."""
import itertools
import json
import signal
import time
import os
import resource

import common
from common import Report, Sandbox, run_cicada, crashed

SIGS = {"HUP": 1, "INT": 2, "QUIT": 3, "ABRT": 6, "KILL": 9, "USR1": 10, "SEGV": 11, "PIPE": 13,
        "ALRM": 14, "TERM": 15}
FNV0 = "cbf29ce484222325"
_sb = None


def _init(cicada):
    global _sb
    resource.setrlimit(resource.RLIMIT_CORE, (0, 0))
    _sb = Sandbox(cicada, "c02")


def stage_text(i, st):
    k = st["kind"]
    tail = ""
    if st.get("linger") is not None:
        tail += " --linger %d" % st["linger"]
    if st.get("exit"):
        tail += " --exit %d" % st["exit"]
    if st.get("kill"):
        tail += " --kill %d" % st["kill"]
    tag = " @%d" % i
    if st.get("amp"):
        tag += " " + st["amp"]        # (a quoted & as the last word of the line: an argument, not the background marker)
    if k == "src":
        return "vp_st src %d %d%s%s" % (st["n"], st["seed"], tail, tag)
    if k == "flt":
        return "vp_st flt %d%s%s" % (st["key"], tail, tag)
    if k == "snk":
        return "vp_st snk%s%s" % (tail, tag)
    if k == "noread":
        return "vp_st noread%s%s" % (tail, tag)
    if k == "status":
        return "vp_status %d @%d" % (st["exit"], i)
    if k == "notfound":
        return "vp_nonexistent_cmd @%d" % i
    if k == "builtin":
        return st["text"]
    raise ValueError(k)


# a builtin stage that writes several lines: three definitions, listed by `alias` in the order of its table
LISTING_PRELUDE = "alias vpl1='vp_a 1' ; alias vpl2='vp_b -x 2' ; alias vpl3='vp_c'"
LISTING_BYTES = sum(len("alias %s='%s'\n" % (n, v)) for n, v in (("vpl1", "vp_a 1"), ("vpl2", "vp_b -x 2"), ("vpl3", "vp_c")))


def expected_status(st):
    k = st["kind"]
    if k == "notfound":
        return 127
    if k == "builtin":
        return "nonzero" if st.get("fails") else 0
    if k == "status":
        return st["exit"]
    if st.get("kill"):
        return 128 + st["kill"]
    return st.get("exit") or 0


def reads_all(st):
    return st["kind"] in ("flt", "snk")


def judge(case):
    stages, form = case["stages"], case["form"]
    n = len(stages)
    pipeline = " | ".join(stage_text(i, s) for i, s in enumerate(stages))
    sb = _sb
    sb.reset_log()
    if form == "snap":
        line = pipeline + " ; vp_snap $?"
    else:
        line = pipeline
    if any(s_.get("listing") for s_ in stages):
        line = LISTING_PRELUDE + " ; " + line
    if case.get("prelude"):
        # earlier commands of the same shell (builtins run in the shell process, a failing command, a pipeline):
        # whatever state they leave behind must not reach the pipeline under test
        line = case["prelude"] + " ; " + line
    if case.get("bg_before"):
        # a background job started earlier ends while the pipeline is still running
        line = "vp_job BG %s @bg & ; " % case["bg_before"] + line
    during = None
    if case.get("stopcont") is not None:
        # a stage is stopped and continued from outside while the pipeline runs (it finishes last): the shell must
        # keep waiting for it and report the last stage's own status
        target = "@%d" % case["stopcont"]
        sc = {"done": False}

        def during(shell_pid):
            t_end = time.time() + 5
            while time.time() < t_end:
                for x in sb.records():
                    if x.get("kind") == "start" and target in x.get("argv", []) and x["name"] == "vp_st":
                        try:
                            os.kill(x["pid"], signal.SIGSTOP)
                            time.sleep(0.25)
                            os.kill(x["pid"], signal.SIGCONT)
                            sc["done"] = True
                        except OSError:
                            pass
                        return
                time.sleep(0.02)
    r = run_cicada(sb, ["-c", line], timeout=25.0, during=during)
    recs = sb.records()
    if case.get("stopcont") is not None and not sc["done"]:
        return ("inconclusive", "the stage to stop and continue was not found in time", {"line": line})
    res = {"line": line, "rc": r.rc, "n_records": len(recs), "stderr": r.err.decode("utf-8", "replace")[-300:]}
    feat = "n=%s" % (n if n < 3 else "3+")
    if r.timed_out:
        res["diag"] = r.diag
        procs = r.diag["procs"] if r.diag else []
        live = [p for p in procs if p["state"] not in ("Z", "X")]
        if live and all(p["state"] in ("S", "D") and p["cpu_ticks"] == 0 for p in live):
            holders = [p for p in live if p["pipes"]]
            res["deadlock_holders"] = holders
            return ("violated", "C02:hang-deadlock:%s:lossy=%s" % (feat, case["lossy"]), res)
        if r.diag and r.diag["kind"] == "spin":
            return ("violated", "C02:hang-spin:%s" % feat, res)
        return ("inconclusive", "timeout without deadlock diagnosis", res)
    c = crashed(r)
    if c:
        return ("violated", "C02:shell-crash:" + c.split(" ")[0], res)
    # index records
    starts = {}
    ends = {}
    snap = None
    snap_pos = None
    for pos, x in enumerate(recs):
        if x.get("kind") == "garbled":
            return ("inconclusive", "garbled log record", res)
        tag = [a for a in x.get("argv", []) if a.startswith("@")]
        if x["name"] == "vp_snap":
            snap, snap_pos = x, pos
            continue
        if not tag or not tag[0][1:].isdigit():
            continue          # (the earlier background job of the bg-overlap class is not a stage)
        i = int(tag[0][1:])
        if x["kind"] == "start":
            starts.setdefault(i, []).append((pos, x))
        elif x["kind"] == "end":
            ends.setdefault(i, []).append((pos, x))
    res["observed"] = {"starts": {i: len(v) for i, v in starts.items()},
                       "ends": {i: len(v) for i, v in ends.items()}}
    # (a) exactly once
    for i, st in enumerate(stages):
        want = 0 if st["kind"] in ("notfound", "builtin") else 1
        got = len(starts.get(i, []))
        if got != want:
            return ("violated", "C02:stage-start-count:%s:kind=%s:got=%s" % (
                feat, st["kind"], "0" if got == 0 else "2+"), res)
    # (a') a writer whose reader is gone must get SIGPIPE: every stage starts with SIGPIPE neither ignored nor blocked
    for i, lst in starts.items():
        for _, x in lst:
            if (x.get("sig_ign", 0) | x.get("sig_blk", 0)) & (1 << 13):
                res["sig_ign"], res["sig_blk"] = x.get("sig_ign"), x.get("sig_blk")
                return ("violated", "C02:stage-started-with-SIGPIPE-%s" % (
                    "ignored" if x.get("sig_ign", 0) & (1 << 13) else "blocked"), res)
            # ... and the same for every other signal that has to be able to terminate or stop a stage (the shell ignores
            # or blocks some of them for itself: a stage must not inherit that)
            for sname, sg in (("HUP", 1), ("INT", 2), ("QUIT", 3), ("ABRT", 6), ("USR1", 10), ("SEGV", 11), ("ALRM", 14),
                              ("TERM", 15), ("TSTP", 20), ("TTIN", 21), ("TTOU", 22)):
                if (x.get("sig_ign", 0) | x.get("sig_blk", 0)) & (1 << sg):
                    res["sig_ign"], res["sig_blk"] = x.get("sig_ign"), x.get("sig_blk")
                    return ("violated", "C02:stage-started-with-SIG%s-%s" % (
                        sname, "ignored" if x.get("sig_ign", 0) & (1 << sg) else "blocked"), res)
    # (a'') wiring: stage i's stdout and stage i+1's stdin are the two ends of one pipe that no other link shares; the first
    # stage reads what the shell reads, the last one writes where the shell writes, every stage keeps the shell's stderr,
    # and no stage holds any other descriptor
    first = {i: lst[0][1] for i, lst in starts.items() if lst}
    pipes_seen = {}
    for i in sorted(first):
        x = first[i]
        std = x.get("std") or [None, None, None]
        what = None
        if x.get("open_fds") not in (None, [0, 1, 2]):
            what = "stage-holds-extra-descriptors"
        elif std[2] is None or std[2][1] != r.stderr_ino:
            what = "stage-stderr-is-not-the-shells"
        elif i == 0 and (std[0] is None or std[0][2] != "chr"):
            what = "first-stage-stdin-is-not-the-shells"
        elif i == n - 1 and (std[1] is None or std[1][1] != r.stdout_ino):
            what = "last-stage-stdout-is-not-the-shells"
        elif i + 1 in first:
            nxt = (first[i + 1].get("std") or [None])[0]
            if std[1] is None or nxt is None or std[1][2] != "fifo" or nxt[2] != "fifo" or std[1][1] != nxt[1]:
                what = "adjacent-stages-are-not-joined-by-one-pipe"
            elif std[1][1] in pipes_seen:
                what = "one-pipe-serves-two-links"
            else:
                pipes_seen[std[1][1]] = i
        if what:
            res["wiring"] = {"stage": i, "std": std, "open_fds": x.get("open_fds")}
            return ("violated", "C02:wiring:%s:%s" % (what, feat), res)
    for i, st in enumerate(stages):
        if st["kind"] == "builtin" and st.get("fails") and b"cicada" not in r.err:
            return ("violated", "C02:failing-builtin-stage-left-no-diagnostic-on-stderr:%s" % feat, res)
    # every vp_st stage that was not killed before logging must have ended
    for i, st in enumerate(stages):
        if st["kind"] in ("src", "flt", "snk", "noread") and len(ends.get(i, [])) != 1:
            return ("violated", "C02:stage-end-count:%s:kind=%s" % (feat, st["kind"]), res)
    # (b) conservation per link
    for i in range(n - 1):
        w, rd = stages[i], stages[i + 1]
        if rd["kind"] not in ("flt", "snk"):
            continue
        e_r = ends[i + 1][0][1]
        if e_r["epipe"]:
            # the reader stopped early because its own output was refused: it need not have
            # consumed everything its writer produced
            continue
        if w["kind"] in ("src", "flt", "noread"):
            e_w = ends[i][0][1]
            if e_r["nin"] != e_w["nout"] or e_r["hin"] != e_w["hout"]:
                return ("violated", "C02:link-conservation:%s:writer=%s:reader=%s" % (feat, w["kind"], rd["kind"]), res)
            if w["kind"] == "src" and not case["lossy"] and e_w["nout"] != w["n"]:
                return ("violated", "C02:source-truncated:%s" % feat, res)
        elif w["kind"] in ("status", "notfound") or (w["kind"] == "builtin" and w.get("silent")):
            # (a builtin that prints nothing on its stdout - its diagnostics go to stderr - feeds nothing to the next stage)
            if e_r["nin"] != 0:
                return ("violated", "C02:bytes-from-nowhere:%s%s" % (feat, ":writer=failing-builtin" if w.get("fails") else ""), res)
        elif w["kind"] == "builtin" and w.get("listing"):
            # every line the builtin stage writes reaches its reader
            if e_r["nin"] != LISTING_BYTES:
                res["listing_bytes_expected"], res["reader_received"] = LISTING_BYTES, e_r["nin"]
                return ("violated", "C02:builtin-stage-output-incomplete:%s:reader-got-%s" % (feat, "less" if e_r["nin"] < LISTING_BYTES else "more"), res)
        if e_r["rerr"]:
            return ("violated", "C02:read-error:%s" % feat, res)
    if not case["lossy"]:
        for i, st in enumerate(stages):
            if st["kind"] in ("src", "flt") and i < n - 1 and ends[i][0][1]["epipe"]:
                return ("violated", "C02:unexpected-epipe:%s" % feat, res)
    # first stage must not inherit a pipe as stdin, last must write to the driver's stdout
    if form == "snap":
        if snap is None:
            return ("violated", "C02:follow-up-command-missing:%s" % feat, res)
        # (c) ordering: all end records precede the follow-up command
        for i, v in ends.items():
            if v[0][0] > snap_pos:
                return ("violated", "C02:shell-resumed-before-stage-ended:%s:stage=%s-of-%d" % (
                    feat, "last" if i == n - 1 else "nonlast", n), res)
        # (d) nothing left behind
        if snap["sib"]:
            res["siblings"] = snap["sib"]
            return ("violated", "C02:leftover-child:%s:state=%s" % (feat, snap["sib"][0][1]), res)
        # (e) status
        want = expected_status(stages[-1])
        got = snap["argv"][1] if len(snap["argv"]) > 1 else None
        res["status_expected"], res["status_observed"] = want, got
        if (got in ("0", None)) if want == "nonzero" else (got != str(want)):
            return ("violated", "C02:status:%s:last=%s%s" % (
                feat, stages[-1]["kind"], ":signal" if stages[-1].get("kill") else ""), res)
        # shell's own fds back to 0,1,2
        extra = [fd for fd, _ in snap["pfds"] if fd > 2]
        if extra:
            res["shell_fds"] = snap["pfds"]
            return ("violated", "C02:shell-keeps-pipe-fd:%s" % feat, res)
    else:
        want = expected_status(stages[-1])
        res["status_expected"], res["status_observed"] = want, r.rc
        if (r.rc == 0) if want == "nonzero" else (r.rc != want):
            return ("violated", "C02:exit-status-of-dash-c:%s:last=%s%s" % (
                feat, stages[-1]["kind"], ":signal" if stages[-1].get("kill") else ""), res)
    return ("held", None, res)


def mk(stages, form="snap"):
    lossy = any(s["kind"] in ("noread", "status", "notfound", "builtin") for s in stages[1:]) or \
        any(s.get("kill") or False for s in stages[:-1])
    return {"stages": stages, "form": form, "lossy": lossy}


def clean_pipeline(n, payload, seed, order, step=40):
    """order: permutation; order[i] = finishing rank of stage i"""
    st = []
    for i in range(n):
        lg = order[i] * step
        if n == 1:
            st.append({"kind": "src", "n": min(payload, 4096), "seed": seed, "linger": lg})
        elif i == 0:
            st.append({"kind": "src", "n": payload, "seed": seed, "linger": lg})
        elif i == n - 1:
            st.append({"kind": "snk", "linger": lg})
        else:
            st.append({"kind": "flt", "key": 17 * i + 3, "linger": lg})
    return st


def gen_cases(tier, seed):
    rng = common.rng_for(seed, "C02")
    cases = []
    thorough = tier == "thorough"
    payloads_q = [0, 4096, 65537, 1 << 20]
    payloads_all = [0, 1, 4095, 4096, 65536, 65537, 200000, 1 << 20]
    # 1. all finishing orders for n<=4
    for n in range(1, 5):
        for order in itertools.permutations(range(n)):
            for p in payloads_all:
                for step in ((40, 15) if thorough else (40,)):
                    cases.append(dict(mk(clean_pipeline(n, p, rng.randrange(1, 10 ** 6), order, step=step)),
                                      cls="order"))
    # 2. n=5..6 random orders
    for _ in range(400 if thorough else 60):
        n = rng.choice([5, 6])
        order = list(range(n))
        rng.shuffle(order)
        cases.append(dict(mk(clean_pipeline(n, rng.choice(payloads_all), rng.randrange(1, 10 ** 6), order, step=30)),
                          cls="order-long"))
    # 3. every exit code / signal of the last stage, both forms
    codes = range(256) if thorough else list(range(0, 256, 5)) + [1, 2, 126, 127, 128, 129, 254]
    for c in codes:
        n = rng.choice([1, 2, 3])
        st = clean_pipeline(n, rng.choice([0, 100, 70000]), 7, list(range(n)), step=0)
        for s in st:
            s["linger"] = None
        st[-1]["exit"] = c
        cases.append(dict(mk(st, rng.choice(["snap", "bare"])), cls="exit-code"))
    for name, sg in SIGS.items():
        for n in (1, 2, 3):
            st = clean_pipeline(n, rng.choice([0, 100, 70000]), 7, list(range(n)), step=0)
            for s in st:
                s["linger"] = None
            st[-1]["kill"] = sg
            for form in (["snap", "bare"] if thorough else [rng.choice(["snap", "bare"])]):
                cases.append(dict(mk(st, form), cls="signal"))
    # 4. lossy shapes: non-reading / failing / not-found / builtin stages in every position
    specials = [lambda: {"kind": "noread", "linger": rng.choice([None, 0, 60])},
                lambda: {"kind": "noread", "exit": rng.choice([1, 3, 200])},
                lambda: {"kind": "status", "exit": rng.choice([0, 1, 9])},
                lambda: {"kind": "notfound"},
                lambda: {"kind": "builtin", "text": rng.choice(["minfd", "alias", "jobs"])},
                lambda: {"kind": "builtin", "text": "alias", "listing": True},
                # builtins that print nothing on stdout: a failing one reports on stderr
                lambda: {"kind": "builtin", "text": rng.choice(["cd /vp-no-such-dir", "unalias vp_no_such_alias", "read 1x"]),
                         "silent": True, "fails": True},
                lambda: {"kind": "builtin", "text": rng.choice(["cd .", "alias vpq=vp_a", "export VPQ=1"]), "silent": True}]
    reps = 8 if thorough else 2
    for n in range(1, 7):
        for pos in range(n):
            for sp in specials:
                for _ in range(reps):
                    payload = rng.choice([0, 4096, 70000, 1 << 20, 1 << 20])
                    order = list(range(n))
                    rng.shuffle(order)
                    st = clean_pipeline(n, payload, rng.randrange(1, 10 ** 6), order, step=30)
                    special = sp()
                    if pos == 0 and special["kind"] == "noread":
                        special = {"kind": "src", "n": payload, "seed": 5, "linger": None, "exit": 4}
                    st[pos] = special
                    cases.append(dict(mk(st), cls="lossy"))
    # 4a. the pipeline's last word is a quoted ampersand
    for _ in range(60 if thorough else 16):
        n = rng.choice([1, 2, 3])
        order = list(range(n))
        rng.shuffle(order)
        st = clean_pipeline(n, rng.choice([0, 4096, 70000]), rng.randrange(1, 10 ** 6), order, step=40)
        st[-1]["amp"] = rng.choice(["'&'", '"&"'])
        st[-1]["exit"] = rng.choice([0, 5])
        cases.append(dict(mk(st, rng.choice(["snap", "bare"])), cls="quoted-ampersand-last"))
    # 4b. an earlier background job terminates while the foreground pipeline runs (its status change
    #     reaches the foreground wait); the last stage finishes late
    for _ in range(120 if thorough else 30):
        n = rng.choice([1, 2, 3])
        order = list(range(n))
        st = clean_pipeline(n, rng.choice([0, 4096, 70000]), rng.randrange(1, 10 ** 6), order, step=120)
        st[-1]["linger"] = 350
        st[-1]["exit"] = rng.choice([7, 0, 3])
        c = dict(mk(st), cls="bg-overlap")
        c["bg_before"] = rng.choice(["0.05", "0.1", "0.2"])
        cases.append(c)
    # 4c. the pipeline is not the first thing the shell does
    PRELUDES = ["alias", "alias zq=vp_a ; alias", "cd .", "jobs", "export VPX=1", "unalias nosuchalias", "alias nosuchalias",
                "vp_status 3 @pre", "vp_nonexistent_cmd", "history", "alias | vp_st snk @pre", "VPY=1", "alias > /dev/null"]
    for _ in range(600 if thorough else 70):
        n = rng.choice([1, 2, 3, 4])
        order = list(range(n))
        rng.shuffle(order)
        st = clean_pipeline(n, rng.choice([0, 4096, 70000, 1 << 20]), rng.randrange(1, 10 ** 6), order, step=20)
        if n > 1 and rng.random() < 0.5:
            st[-1] = {"kind": "noread", "linger": rng.choice([None, 0, 30])}
        c = dict(mk(st), cls="after-prelude")
        c["prelude"] = rng.choice(PRELUDES)
        cases.append(c)
    # 4d. a stage stopped and continued from outside; it is the one that finishes last
    for _ in range(200 if thorough else 40):
        n = rng.choice([2, 3, 4])
        order = list(range(n))
        st = clean_pipeline(n, rng.choice([0, 4096, 70000]), rng.randrange(1, 10 ** 6), order, step=0)
        k = rng.randrange(n)
        for i, x in enumerate(st):
            # the other stages outlive the stop window (a pipeline whose other members are all gone while one is
            # stopped is legitimately handed back to the shell), the target outlives them
            x["linger"] = 1100 if i == k else rng.choice([600, 650, 700])
        st[-1]["exit"] = rng.choice([7, 0, 3])
        c = dict(mk(st), cls="stop-cont")
        c["stopcont"] = k
        cases.append(c)
    # 5. a non-last stage killed by a signal mid-pipeline (after it did its work)
    for _ in range(200 if thorough else 40):
        n = rng.choice([2, 3, 4])
        st = clean_pipeline(n, rng.choice([0, 4096, 70000]), 9, list(range(n)), step=0)
        for s in st:
            s["linger"] = None
        st[rng.randrange(0, n - 1)]["kill"] = rng.choice([1, 9, 15])
        cases.append(dict(mk(st), cls="midkill"))
    return cases


def _work(case):
    try:
        return judge(case)
    except Exception as e:
        import traceback
        return ("inconclusive", "harness: %r %s" % (e, traceback.format_exc()[-300:]), {})


def run(tier, seed):
    common.build_helpers()
    cicada = common.build_cicada("debug")
    rep = Report("C02", tier, seed)
    rep.rule = ("pipelines of 1..6 instrumented stages: all finishing orders for n<=4 (forced by per-stage "
                "linger after closing stdio) x payloads 0..1MiB, random orders for n=5..6, last-stage exit "
                "codes and terminating signals, non-reading/failing/not-found/builtin stages in every position, "
                "mid-pipeline signal deaths, an earlier background job ending meanwhile, and pipelines run after other commands of "
                "the same shell (in-process builtins with and without output, failing and unknown commands); every stage's inherited "
                "SIGPIPE disposition is read at its start.  Non-trivial = at least two stages or a non-zero status; distinct by "
                "the full stage list + form.")
    rep.assumptions = ["stage helpers are trusted to count/hash what they read and write",
                       "a watchdog hit is a violation only when every live process of the tree is asleep with "
                       "zero CPU over the sampling window (deadlock); otherwise inconclusive"]
    cases = gen_cases(tier, seed)
    results = common.pmap(_work, cases, init=_init, initargs=(cicada,), chunksize=2)
    orders = set()
    for case, (verdict, sig, res) in zip(cases, results):
        st = case["stages"]
        nontriv = len(st) > 1 or expected_status(st[-1]) != 0
        rep.case(json.dumps(case, sort_keys=True), nontriv,
                 sample={"line": res.get("line"), "class": case["cls"], "observed": res.get("observed"),
                         "status": res.get("status_observed")})
        rep.count("cases_" + case["cls"])
        rep.count("log_records", res.get("n_records", 0))
        if case["cls"].startswith("order"):
            orders.add((len(st), tuple(s.get("linger") for s in st)))
        if verdict == "held":
            rep.hold()
        elif verdict == "violated":
            rep.violate(sig, case, res)
        else:
            rep.inconc(sig, res)
    rep.extra["distinct_finishing_orders"] = len(orders)
    return rep.finish()


def replay(path):
    common.build_helpers()
    cicada = common.build_cicada("debug")
    _init(cicada)
    with open(path) as f:
        data = json.load(f)
    bad = 0
    for c in data["cases"]:
        v, sig, res = judge(c["case"])
        print(v, sig, json.dumps(res, default=str)[:1000])
        if v == "violated":
            bad = 1
    if bad:
        print("VIOLATION property=C02 replay=%s" % path)
    return bad
