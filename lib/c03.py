"""C03 command lists: left-to-right, short-circuit, $?, exit status.

Monitor: every operand of the list is an observer program that logs a marker
(vp_status <code> <marker> ...) or a $? probe (vp_argv Q $?).  The ordered
event log is compared with the 6-line reference evaluator of the statement."""
import itertools
import json
import os

import common
from common import Report, Sandbox, run_cicada, crashed

OPS = [";", "&&", "||"]
DECOYS = ["';'", '"&&"', "'||'", "a\\;b", "'#'", '"|"', "\\;", "'a && b'", '"x;y"',
          '"p\\";q"', '"u \\" && v \\" w"', '"e \\" || f"', "中文", "'日本 ; 語'", '"é && é"', "é",
          # escaped operators as words of their own and inside a word (a word that starts with an escaped | gets a tag of its own)
          "\\|\\|", "\\|\\|x", "a\\|\\|b", "\\&\\&x", "a\\&\\&b", "\\|",
          # a `#` that is not at the start of a word is part of the word (no comment: the rest of the line still runs)
          "a#b", "x#", "p#q.r"]
DECOY_VALUES = {"';'": ";", '"&&"': "&&", "'||'": "||", "a\\;b": "a;b", "'#'": "#", '"|"': "|", "\\;": ";",
                "'a && b'": "a && b", '"x;y"': "x;y",
                '"p\\";q"': 'p";q', '"u \\" && v \\" w"': 'u " && v " w', '"e \\" || f"': 'e " || f',
                "中文": "中文", "'日本 ; 語'": "日本 ; 語", '"é && é"': "é && é", "é": "é",
                "\\|\\|": "||", "\\|\\|x": "||x", "a\\|\\|b": "a||b", "\\&\\&x": "&&x", "a\\&\\&b": "a&&b", "\\|": "|",
                "a#b": "a#b", "x#": "x#", "p#q.r": "p#q.r"}

# operands that set the status to 0 without running a program
SILENT = {"source-defs": "source defs.sh", "assign": "VA%(i)d=v%(i)d", "assign2": "VA%(i)d=1 VB%(i)d=2", "export": "export VX%(i)d=1", "cd": "cd .", "alias": "alias zz%(i)d=vp_a"}

_sb = None


def _init(cicada):
    global _sb
    _sb = Sandbox(cicada, "c03")
    # a file that defines a function and runs nothing: sourcing it succeeds
    with open(os.path.join(_sb.work, "defs.sh"), "w") as f:
        f.write("# definitions only\nfunction vpfn {\n    vp_argv infn\n}\n")


def model(prog, st0=0):
    """prog: list of (op, operand); op of element 0 is None.
    operand: ('s', code, marker, decoys) | ('q',)  ->  (expected events, final status)"""
    st = st0
    ev = []
    ran = []
    for i, (op, opd) in enumerate(prog):
        run = i == 0 or op == ";" or (op == "&&" and st == 0) or (op == "||" and st != 0)
        ran.append(run)
        if not run:
            continue
        if opd[0] == "s":
            ev.append(("vp_status", [str(opd[1]), opd[2]] + [DECOY_VALUES[d] for d in opd[3]]))
            st = opd[1]
        elif opd[0] == "q":
            ev.append(("vp_argv", ["Q%d" % i] + [DECOY_VALUES[d] for d in (opd[2] if len(opd) > 2 else ())] + [str(st)]))
            st = 0
        elif opd[0] == "k":
            # an operand that is killed by a signal: status 128+signal
            ev.append(("vp_status", ["sig%d" % opd[1], opd[2]]))
            st = 128 + opd[1]
        elif opd[0] == "f":
            # a builtin that fails without running a program (cd to something that exists but is no directory, or is missing)
            st = 1
        else:
            # a command that succeeds without running a program (assignment-only, builtin): no event, status 0
            st = 0
    return ev, st, ran


def render(prog, spacing):
    parts = []
    for i, (op, opd) in enumerate(prog):
        if i:
            sp = spacing[i % len(spacing)]
            parts.append(sp[0] + op + sp[1])
        if opd[0] == "s":
            parts.append("vp_status %d %s" % (opd[1], opd[2]) + "".join(" " + d for d in opd[3]))
        elif opd[0] == "q":
            # (the probe may carry decoy words before the status: the expansion pass walks every word of the command)
            parts.append("vp_argv Q%d %s%s" % (i, "".join(d + " " for d in (opd[2] if len(opd) > 2 else ())),
                                              "${?}" if len(opd) > 1 and opd[1] == "brace" else "$?"))
        elif opd[0] == "k":
            parts.append("vp_status sig%d %s" % (opd[1], opd[2]))
        elif opd[0] == "f":
            parts.append({"cd-file": "cd defs.sh", "cd-missing": "cd /vp-no-such-dir"}[opd[1]])
        else:
            parts.append(SILENT[opd[1]] % {"i": i})
    return "".join(parts)


def judge(case):
    prog, mode, spacing = case["prog"], case["mode"], case["spacing"]
    prog = [(op, tuple(o) if not isinstance(o, tuple) else o) for op, o in prog]
    line = render(prog, spacing)
    exp_ev, exp_st, ran = model(prog, 1 if mode == "script-in-else" else 0)
    sb = _sb
    sb.reset_log()
    pre, post, text = [], [], None
    if mode == "c":
        r = run_cicada(sb, ["-c", line])
    else:
        # the list as the last thing a script runs: alone, or as the body of the taken branch of an `if`, or as the body of
        # an `if` that ends a function called as the first operand of a list of its own (the status of the call decides
        # which side of that list runs)
        if mode == "script-in-if":
            text = "if vp_status 0 T0; then\n    %s\nfi\n" % line
            pre = [("vp_status", ["0", "T0"])]
        elif mode == "script-in-else":
            text = "if vp_status 1 T0\n    vp_status 0 NEVER\nelse\n    %s\nfi\n" % line
            pre = [("vp_status", ["1", "T0"])]
        elif mode == "script-in-for-break":
            # ... as the body of a `for` loop left by `break` in its first round
            text = "for vv in 1 2\n    %s\n    break\ndone\n" % line
        elif mode == "function-captured":
            # the list is the body of a function whose output is captured: statuses decide inside it just the same
            text = "function vf {\n    %s\n}\nVX=$(vf)\n" % line
        elif mode == "function-in-list":
            text = ("function vf {\n    if vp_status 0 T0; then\n        %s\n    fi\n}\n"
                    "vf && vp_status 0 AND || vp_status 4 OR\n" % line)
            pre = [("vp_status", ["0", "T0"])]
            post = [("vp_status", ["0", "AND"])] if exp_st == 0 else [("vp_status", ["4", "OR"])]
        else:
            text = line + ("\n" if mode == "script" else "")
        path = os.path.join(sb.root, "prog.sh")
        with open(path, "w") as f:
            f.write(text)
        r = run_cicada(sb, [path])
    recs = sb.records()
    obs = [(x["name"], x["argv"][1:]) for x in recs if x.get("kind") == "start"]
    res = {"line": line, "mode": mode, "rc": r.rc, "observed": obs, "expected": pre + exp_ev + post, "expected_rc": exp_st}
    if text is not None and text.rstrip("\n") != line:
        res["script"] = text
    if post:
        exp_st = res["expected_rc"] = 0 if exp_st == 0 else 4
    if mode == "function-captured":
        exp_st = res["expected_rc"] = 0       # (the script's last line is an assignment)
    if r.timed_out:
        return ("inconclusive", "timeout", res)
    c = crashed(r)
    if c:
        return ("violated", "C03:shell-crash:" + c.split(" ")[0], res)
    if (pre or post) and not r.timed_out and not crashed(r):
        if obs[:len(pre)] != pre:
            return ("violated", "C03:block-around-the-list:head-event-differs:mode=%s" % mode, res)
        obs = obs[len(pre):]
        if post:
            if obs[-1:] != post:
                if obs[:len(exp_ev)] == exp_ev:
                    return ("violated", "C03:status-of-a-function-call-in-a-list-is-not-that-of-its-last-pipeline", res)
            else:
                obs = obs[:-1]
    if obs != exp_ev:
        # classify by the first operand whose run/skip decision differs
        obs_names = [o[1][1] if o[0] == "vp_status" else o[1][0] for o in obs]
        k = 0
        for i, (op, opd) in enumerate(prog):
            if opd[0] in ("z", "f"):
                continue        # leaves no event of its own
            name = opd[2] if opd[0] in ("s", "k") else "Q%d" % i
            did = k < len(obs_names) and obs_names[k] == name
            if did != ran[i]:
                prev_skipped = i > 0 and not ran[i - 1]
                if did:
                    return ("violated", "C03:ran-operand-that-must-be-skipped:op=%s" % op, res)
                return ("violated", "C03:skipped-operand-that-must-run:op=%s:previous-operand-skipped=%s" % (
                    op, prev_skipped), res)
            if did:
                if obs[k] != exp_ev[sum(ran[:i])]:
                    what = "probe-value" if opd[0] == "q" else "operand-argv"
                    return ("violated", "C03:%s-differs" % what, res)
                k += 1
        return ("violated", "C03:extra-or-reordered-events", res)
    if r.rc != exp_st:
        return ("violated", "C03:exit-status-differs:mode=%s" % ("c" if mode == "c" else "script" if mode in ("script", "script-noeol") else mode), res)
    return ("held", None, res)


def gen_cases(tier, seed):
    cases = []
    tight = [(" ", " ")]
    # exhaustive: n <= 6, codes {0,1}
    for n in range(1, 7):
        for codes in itertools.product([0, 1], repeat=n):
            for ops in itertools.product(OPS, repeat=n - 1):
                prog = [(None if i == 0 else ops[i - 1], ("s", codes[i], "m%d" % i, ())) for i in range(n)]
                cases.append({"prog": prog, "mode": "c", "spacing": tight, "class": "exhaustive"})
    n_exh = len(cases)
    rng = common.rng_for(seed, "C03")
    # the same exhaustive space through the script entry (sampled in quick)
    frac = 1.0 if tier == "thorough" else 0.12
    for c in list(cases[:n_exh]):
        if rng.random() < frac:
            cases.append(dict(c, mode=rng.choice(["script", "script-noeol"]), **{"class": "exhaustive-script"}))
    # random: longer, other codes, decoys, probes, spacing
    nrand = 40000 if tier == "thorough" else 3000
    for j in range(nrand):
        n = rng.randint(2, 12)
        prog = []
        for i in range(n):
            op = None if i == 0 else rng.choice(OPS)
            r = rng.random()
            if r < 0.3:
                opd = ("q", rng.choice(["plain", "plain", "brace"]), tuple(rng.choice(DECOYS) for _ in range(rng.choice([0, 0, 1, 2]))))
            elif r < 0.39:
                opd = ("z", rng.choice(sorted(SILENT)))
            elif r < 0.42:
                opd = ("f", rng.choice(["cd-file", "cd-missing"]))
            elif r < 0.5:
                opd = ("k", rng.choice([15, 9, 1, 10]), "m%d" % i)
            else:
                dec = tuple(rng.choice(DECOYS) for _ in range(rng.choice([0, 0, 1, 2])))
                opd = ("s", rng.choice([0, 0, 1, 2, 7, 127, 255]), "m%d" % i, dec)
            prog.append((op, opd))
        spacing = [rng.choice([(" ", " "), ("", ""), ("  ", " "), (" ", "")]) for _ in range(3)]
        mode = rng.choice(["c", "c", "c", "script", "script", "script-noeol", "script-in-if", "script-in-else", "function-in-list", "function-captured", "script-in-for-break"])
        # (script lines used to be re-rendered before list splitting, which mangled `a||b` and backslash
        # decoys; since the C16 repair the script entry gets the same spacings and decoys as -c)
        cases.append({"prog": prog, "mode": mode, "spacing": spacing, "class": "random"})
    return cases, n_exh


def _work(case):
    try:
        return judge(case)
    except Exception as e:  # harness failure: never a verdict
        return ("inconclusive", "harness: %r" % e, {"case": "?"})


def run(tier, seed):
    common.build_helpers()
    cicada = common.build_cicada("debug")
    rep = Report("C03", tier, seed)
    rep.rule = ("all programs p1 op .. pn, n<=6, codes {0,1}, ops {; && ||} exhaustively via -c "
                "(and via script files, sampled in quick / all in thorough); random programs n<=12 with "
                "codes {0,1,2,7,127,255}, quoted/escaped decoy operators (ASCII and multi-byte) as arguments, $? probes and operands "
                "that succeed without running a program (assignment-only, export, cd ., alias definition), builtins that fail without running one (cd to a file, to a missing directory) and operands killed by a signal (status 128+n), "
                "varied spacing, via -c and script, and in scripts also as the body of the taken `if` / `else` branch and as the end of a function called inside a list of its own.  Non-trivial = has at least one operator; distinct by "
                "(program, mode, spacing).")
    rep.assumptions = ["helper programs log atomically to an O_APPEND file; file order = execution order "
                       "for sequentially executed foreground commands"]
    cases, n_exh = gen_cases(tier, seed)
    results = common.pmap(_work, cases, init=_init, initargs=(cicada,), chunksize=8)
    ops_seen = set()
    for case, (verdict, sig, res) in zip(cases, results):
        nontriv = len(case["prog"]) > 1
        rep.case((json.dumps(case["prog"]), case["mode"], json.dumps(case["spacing"])), nontriv,
                 sample={"line": res.get("line"), "mode": case["mode"], "expected_events": res.get("expected"),
                         "expected_rc": res.get("expected_rc")} if case["class"] == "random" else None)
        rep.count("events_observed", len(res.get("observed", [])))
        rep.count("cases_" + case["class"])
        for op, _ in case["prog"][1:]:
            ops_seen.add(op)
        if verdict == "held":
            rep.hold()
        elif verdict == "violated":
            rep.violate(sig, {"prog": case["prog"], "mode": case["mode"], "spacing": case["spacing"]}, res)
        else:
            rep.inconc(sig, res)
    rep.extra["exhaustive_space_size"] = n_exh
    rep.extra["exhaustive"] = True
    rep.extra["operators_seen"] = sorted(ops_seen)
    return rep.finish()


def replay(path):
    common.build_helpers()
    cicada = common.build_cicada("debug")
    _init(cicada)
    with open(path) as f:
        data = json.load(f)
    bad = 0
    for c in data["cases"]:
        v, sig, res = judge(c["case"])
        print(v, sig, json.dumps(res, default=str)[:800])
        if v == "violated":
            bad = 1
    if bad:
        print("VIOLATION property=C03 replay=%s" % path)
    return bad
