"""C12 brace, range, tilde and filename expansion yield exactly the specified words.

Monitor: observer vp_argv run in a prepared directory; oracle: a reference expander written from
the statement (left-to-right cartesian product, inclusive arithmetic sequence, HOME substitution,
sorted non-hidden matches or the pattern itself)."""
import fnmatch
import json
import os
import re

import common
from common import Report, Sandbox, run_cicada, crashed

_sb = None
POPS = [
    ["a.txt", "b.txt", "c.log", ".hid.txt", "sub/x.txt", "sub/y.log", "sub/.h"],
    ["a b.txt", "z.txt", "é.txt", "sub/in ner.txt"],
    ["only.log"],
    [".h1", ".h2"],
    ["a", "aa", "aaa", "b", "sub/a", "sub2/a", "sub2/b"],
    # matches two and more levels down, hidden entries at every level
    ["top.c", "sub/deep/k.c", "sub/deep/.m.c", "sub/deep/j.h", "sub/deep/more/z.c", "sub/.hd/k.c", "sub/other/k.c",
     "sub/other/.k.c", "sub/plain.c", ".hd/deep/k.c"],
]
DEEP = 5
DEEP_PATTERNS = ["sub/deep/*", "sub/deep/*.c", "sub/*/*.c", "sub/*/k.c", "*/*/*", "*/deep/*.c", "sub/deep/*/z.c", "sub/*/*/*",
                 "*/*/k*", "sub/other/*", "s*/d*/*", "ABS/sub/deep/*", "ABS/sub/*/k.c", "ABS/*.c", "~/hd/deep/*", "~/hd/*/*.c", "~/*/deep/*",
                 # a hidden directory that is written out (only a wildcard does not match a leading dot)
                 "sub/.hd/*", ".hd/deep/*", ".hd/*/k.c", "ABS/sub/.hd/*", "~/hd/.x/*", "sub/.hd/*.c"]
HOME_POP = ["hd/deep/p.c", "hd/deep/.q.c", "hd/.x/r.c", "hd/other/s.c"]


def _init(cicada):
    global _sb
    _sb = Sandbox(cicada, "c12")


def populate(sb, pop):
    sb.clean_work()
    for p in pop:
        full = os.path.join(sb.work, p)
        os.makedirs(os.path.dirname(full), exist_ok=True)
        open(full, "w").close()
    for p in HOME_POP:
        full = os.path.join(sb.home, p)
        if not os.path.exists(full):
            os.makedirs(os.path.dirname(full), exist_ok=True)
            open(full, "w").close()


# ------------------------------------------------------------ reference

def split_top(s):
    parts, depth, cur = [], 0, ""
    for c in s:
        if c == "{":
            depth += 1
        elif c == "}":
            depth -= 1
        if c == "," and depth == 0:
            parts.append(cur)
            cur = ""
        else:
            cur += c
    parts.append(cur)
    return parts


def brace_expand(word):
    i = 0
    while True:
        i = word.find("{", i)
        if i < 0:
            return [word]
        depth = 0
        j = None
        for k in range(i, len(word)):
            if word[k] == "{":
                depth += 1
            elif word[k] == "}":
                depth -= 1
                if depth == 0:
                    j = k
                    break
        if j is not None:
            alts = split_top(word[i + 1:j])
            if len(alts) > 1:
                out = []
                pre, suf = word[:i], word[j + 1:]
                sufs = brace_expand(suf)
                for alt in alts:
                    for x in brace_expand(alt):
                        for y in sufs:
                            out.append(pre + x + y)
                return out
        i += 1


def range_expand(word):
    m = re.search(r"\{(-?[0-9]+)\.\.(-?[0-9]+)(?:\.\.([0-9]+))?\}", word)
    if not m:
        return [word]
    a, b = int(m.group(1)), int(m.group(2))
    step = int(m.group(3)) if m.group(3) else 1
    if step < 1:
        step = 1
    seq = []
    n = a
    if a <= b:
        while n <= b:
            seq.append(n)
            n += step
    else:
        while n >= b:
            seq.append(n)
            n -= step
    return [word[:m.start()] + str(x) + word[m.end():] for x in seq]


def glob_expand(word, root):
    if word.startswith("/"):
        # an absolute pattern: the same walk from the file system root
        got = glob_expand(word[1:], "/")
        return [word] if got == [word[1:]] else ["/" + g for g in got]
    parts = word.split("/")

    def rec(base, idx):
        if idx == len(parts):
            return [base]
        p = parts[idx]
        d = os.path.join(root, base) if base else root
        res = []
        if "*" in p:
            try:
                names = sorted(os.listdir(d))
            except OSError:
                return []
            for n in names:
                if n.startswith(".") and not p.startswith("."):
                    continue
                if fnmatch.fnmatchcase(n, p):
                    nb = (base + "/" + n) if base else n
                    if idx < len(parts) - 1 and not os.path.isdir(os.path.join(root, nb)):
                        continue
                    res += rec(nb, idx + 1)
        else:
            nb = (base + "/" + p) if base else p
            if os.path.lexists(os.path.join(root, nb)):
                res += rec(nb, idx + 1)
        return res
    got = rec("", 0)
    return got if got else [word]


def expected_words(w, sb):
    kind, text = w["kind"], w["text"]
    if kind in ("sq", "dq", "plain"):
        return [text]
    if kind == "brace":
        return [x.replace("\\ ", " ") for x in brace_expand(text)]
    if kind == "range":
        return [x.replace("\\ ", " ") for x in range_expand(text)]
    if kind == "tilde":
        if text == "~" or text.startswith("~/"):
            return [(_home_value(sb) if _home else sb.home) + text[1:]]
        return [text]
    if kind == "brace-range":
        # the comma group first, then the range pass on each resulting word
        out = []
        for x in brace_expand(text):
            out += range_expand(x)
        return out
    if kind == "brace-glob":
        # the alternatives first, then each resulting word is a pattern of its own
        out = []
        for x in brace_expand(text):
            out += glob_expand(x, sb.work)
        return out
    if kind == "glob":
        if text.startswith("~/"):
            return glob_expand(sb.home + text[1:], sb.work)
        return glob_expand(text.replace("ABS/", sb.work + "/", 1) if text.startswith("ABS/") else text, sb.work)
    raise ValueError(kind)


def write_word(w):
    if w["kind"] == "sq":
        return "'" + w["text"] + "'"
    if w["kind"] == "dq":
        return '"' + w["text"] + '"'
    if w["kind"] == "glob" and w["text"].startswith("ABS/"):
        # (C16 borrows this generator without a sandbox of this module: there the pattern stays relative)
        return (_sb.work + w["text"][3:]) if _sb is not None else w["text"][4:]
    return w["text"]


# -------------------------------------------------------------- running

_delivery = "argv"
_home = None        # None: the home directory the shell was started with; "root": `/`; "slash": that directory with a trailing slash


def _home_value(sb):
    return "/" if _home == "root" else sb.home.rstrip("/") + "/"


def run_line(words, pop):
    sb = _sb
    populate(sb, pop)
    sb.reset_log()
    want = []
    for w in words:
        want += expected_words(w, sb)
    if _delivery == "for":
        # the same words as the list of a `for` loop in a script: one iteration per word, in order
        line = ("export HOME=%s\n" % _home_value(sb) if _home else "") + "for v in " + " ".join(write_word(w) for w in words) + "\n    vp_argv I \"$v\"\ndone\n"
        path = os.path.join(sb.root, "forlist.sh")
        with open(path, "w") as f:
            f.write(line)
        r = run_cicada(sb, [path], timeout=15.0)
        its = [x for x in sb.records() if x["name"] == "vp_argv"]
        # fold the iterations into one pseudo record so that the same comparison applies
        if any(x["argv"][1:2] != ["I"] or len(x["argv"]) != 3 for x in its):
            recs = [{"argv": ["vp_argv", "<an iteration received %r>" % (x["argv"][1:],)]} for x in its[:1]]
        else:
            recs = [{"argv": ["vp_argv"] + [x["argv"][2] for x in its]}]
        return line, r, recs, want
    line = ("export HOME=%s ; " % _home_value(sb) if _home else "") + "vp_argv " + " ".join(write_word(w) for w in words)
    r = run_cicada(sb, ["-c", line], timeout=15.0)
    recs = [x for x in sb.records() if x["name"] == "vp_argv"]
    return line, r, recs, want


def symptom(r, recs, want):
    if r.timed_out:
        return "hang" if r.diag and r.diag["kind"] == "spin" else "TIMEOUT"
    if crashed(r):
        return "shell-crash"
    if len(recs) != 1:
        return "program-ran-%d-times" % len(recs)
    got = recs[0]["argv"][1:]
    if got == want:
        return None
    if sorted(got) == sorted(want):
        return "wrong-order"
    if len(got) != len(want):
        return "wrong-number-of-words"
    return "wrong-words"


def judge(case):
    global _delivery, _home
    _delivery = case.get("delivery", "argv")
    _home = case.get("home")
    try:
        v, sig, res = _judge(case)
        if v == "violated" and _home:
            # does it fail with the ordinary home directory as well?  if not, the home directory matters: sign that
            _home = None
            v0, sig0, res0 = _judge(case)
            if v0 == "held":
                sig = "C12:tilde:home-directory-is-%s:%s" % ("the-root-directory" if case["home"] == "root" else "written-with-a-trailing-slash", sig.split(":")[-1])
            else:
                v, sig, res = v0, sig0, res0
    finally:
        _delivery = "argv"
        _home = None
    if v == "violated" and case.get("delivery") == "for":
        sig = sig + ":as-for-list"
    return v, sig, res


def _judge(case):
    words, pop = case["words"], POPS[case["pop"]]
    line, r, recs, want = run_line(words, pop)
    sym = symptom(r, recs, want)
    res = {"line": line, "expected": want, "observed": [x["argv"][1:] for x in recs], "population": pop}
    if sym is None:
        return ("held", None, res)
    if sym == "TIMEOUT":
        return ("inconclusive", "timeout", res)
    for w in words:
        l2, r2, recs2, want2 = run_line([w], pop)
        s2 = symptom(r2, recs2, want2)
        if s2 and s2 != "TIMEOUT":
            res["minimal_line"] = l2
            res["minimal_expected"], res["minimal_observed"] = want2, [x["argv"][1:] for x in recs2]
            return ("violated", "C12:%s:%s:%s" % (w["kind"], w["feat"], s2), res)
    kinds = "+".join(sorted({w["kind"] for w in words}))
    return ("violated", "C12:combination:%s:%s" % (kinds, sym), res)


# ----------------------------------------------------------- generation

def gen_brace(rng, depth=0):
    """returns (text, features set)"""
    feats = set()
    lits = ["a", "b", "c", "x1", "-", ".", "_", "é"]
    ngroups = rng.randint(1, 3) if depth == 0 else 1
    text = ""
    if rng.random() < 0.6:
        text += rng.choice(lits)
        feats.add("prefix")
    for g in range(ngroups):
        nalt = rng.randint(2, 4)
        alts = []
        for _ in range(nalt):
            k = rng.random()
            if k < 0.15:
                alts.append("")
                feats.add("empty-alt")
            elif k < 0.35 and depth < 2:
                t, f = gen_brace(rng, depth + 1)
                alts.append(t)
                feats.add("nested")
            else:
                alts.append(rng.choice(lits) * rng.randint(1, 2))
        text += "{" + ",".join(alts) + "}"
        if rng.random() < 0.5:
            text += rng.choice(lits)
            feats.add("suffix" if g == ngroups - 1 else "infix")
    if ngroups > 1:
        feats.add("multi-group")
    return text, feats


def gen_word(rng):
    k = rng.random()
    if k < 0.30:
        t, f = gen_brace(rng)
        # a word must not expand to an empty word (unspecified)
        if any(x == "" for x in brace_expand(t)):
            t = "p" + t
            f.add("prefix")
        order = ["nested", "multi-group", "empty-alt"]
        main = next((x for x in order if x in f), "simple")
        return {"kind": "brace", "text": t, "feat": main + ("+affix" if f & {"prefix", "suffix", "infix"} else "")}
    if k < 0.33:
        # a brace that is never closed stands before (or after) a complete group: it is text, the group still expands
        t, f = gen_brace(rng)
        t = rng.choice(["{" + t, "{x" + t, "a{b" + t, "{{" + t, t + "{c", "{" + t + "{"])
        return {"kind": "brace", "text": t, "feat": "lone-open-brace-next-to-a-complete-group"}
    if k < 0.345:
        # a range, or a group without a comma, as one alternative of a comma group
        t = rng.choice(["{a,{1..3}}", "f{A,B,{1..3}}.txt", "{{1..2},x}", "{a,b{c}}", "{x,{3..1}}y", "p{{2..4..2},q}", "{a,{b}}"])
        return {"kind": "brace-range", "text": t, "feat": "range-or-comma-less-group-as-alternative"}
    if k < 0.38:
        t = rng.choice(["{a}", "{a,b", "a,b}", "{}", "}{", "{a}{b}", "x{a}y", "{,", "a{b", "{a}b,c", "{a},{b}", "x{a},y{b}", "a,{b}", "{a}{b,c}", "{a,b}{c}",
                        # digits, two other characters, digits: no range
                        "{2024}", "v{10.5}", "{1--3}", "{1.:3}", "{12345}", "{a,{1234}}", "{3.14}x"])
        return {"kind": "brace", "text": t, "feat": "negative-no-list"}
    if k < 0.41:
        # the ends of the range parser's number type: the sequence must stop at the bound, not run past it
        t = rng.choice(["{2147483646..2147483647}", "{-2147483647..-2147483648}", "{1..3..2147483647}", "{2147483640..2147483647..5}",
                        "p{2147483645..2147483647..2}s"])
        return {"kind": "range", "text": t, "feat": "ends-of-the-number-type"}
    if k < 0.58:
        a = rng.choice([0, 1, 3, 5, 9, 10, -2, -5, 12])
        b = rng.choice([0, 1, 3, 5, 9, 10, -2, -5, 12])
        step = rng.choice([None, None, 1, 2, 3, 0, 7])
        body = "{%d..%d%s}" % (a, b, "" if step is None else "..%d" % step)
        pre = rng.choice(["", "", "a", "f-", "f\\ "])
        suf = rng.choice(["", "", "b", ".txt", "\\ z"])
        feat = "degenerate" if a == b else ("ascending" if a < b else "descending")
        if step not in (None, 1):
            feat += "+step"
        if a < 0 or b < 0:
            feat += "+negative"
        if pre or suf:
            feat += "+surrounding-text"
        return {"kind": "range", "text": pre + body + suf, "feat": feat}
    if k < 0.68:
        t = rng.choice(["~", "~/x", "~/a/b", "a~", "x/~", "a~/b", "=~", "~/", "~/n.txt~", "~/a~b", "~/x/~", "~/~"])
        feat = "leading" if (t == "~" or t.startswith("~/")) else "negative-not-leading"
        if "~" in t[1:] and feat == "leading":
            feat = "leading+second-tilde-later-in-the-word"
        return {"kind": "tilde", "text": t, "feat": feat}
    if k < 0.88:
        t = rng.choice(["*", "*.txt", "a*", "*.log", "sub/*", "*/x*", "*/*", "nomatch*", "*.none", "sub*/a", "a*a", "*b*"])
        return {"kind": "glob", "text": t, "feat": "pattern=" + t}
    if k < 0.905:
        # a brace group and a wildcard in one word
        t = rng.choice(["*.{txt,log}", "{a,c}*", "sub/*.{log,txt}", "{sub,sub2}/*", "*.{none,txt}", "{a,b}*{a,b}", "{sub/,}*.txt"])
        return {"kind": "brace-glob", "text": t, "feat": "pattern=" + t}
    if k < 0.96:
        t = rng.choice(["{a,b}", "{1..3}", "~", "*", "*.txt", "a{b,c}d", "~/x", "x y"])
        return {"kind": rng.choice(["sq", "dq"]), "text": t, "feat": "quoted"}
    return {"kind": "plain", "text": rng.choice(["w", "-n", "a.b", "x=1"]), "feat": "plain"}


def gen_case(rng):
    c = {"words": [gen_word(rng) for _ in range(rng.randint(1, 4))], "pop": rng.randrange(len(POPS)),
         "delivery": "for" if rng.random() < 0.25 else "argv"}
    if c["pop"] == DEEP:
        # the deep population is there for patterns whose matches lie two and more levels down (relative, absolute, under ~)
        for w in c["words"]:
            if w["kind"] == "glob" or rng.random() < 0.3:
                t = rng.choice(DEEP_PATTERNS)
                w.update(kind="glob", text=t, feat="deep-pattern=" + t)
    if rng.random() < 0.12 and not any(w["kind"] == "glob" and w["text"].startswith("~") for w in c["words"]):
        # the home directory is the root directory, or is written with a trailing slash (set by `export HOME=...` first)
        c["home"] = rng.choice(["root", "slash"])
    if c.get("home") and any(w["kind"] == "glob" and w["text"].startswith("~") for w in c["words"]):
        del c["home"]
    return c


def _work(case):
    try:
        return judge(case)
    except Exception as e:
        import traceback
        return ("inconclusive", "harness: %r %s" % (e, traceback.format_exc()[-500:]), {})


def run(tier, seed):
    common.build_helpers()
    cicada = common.build_cicada("debug")
    rep = Report("C12", tier, seed)
    rep.rule = ("lines of 1..4 words, each a brace term from a grammar (depth<=3, <=4 alternatives, <=3 groups, empty "
                "alternatives, prefix/suffix text; unbalanced / comma-less negatives, a never-closed brace next to a complete group), a range (negative, descending, "
                "stepped, degenerate bounds, surrounding text), a tilde form (leading and non-leading; 12% of the lines with HOME set to / or to a path with a trailing slash first), a glob pattern "
                "against 5 directory populations (hidden files, names with blanks, subdirectories, no match), or a "
                "quoted/plain neighbour.  Non-trivial = always; distinct by (line, population).")
    rep.assumptions = ["reference expander in lib/c12.py written from the statement; a word that would expand to an "
                       "empty word is not generated (unspecified)", "one expansion kind per word"]
    rng = common.rng_for(seed, "C12")
    n = 60000 if tier == "thorough" else 8000
    cases = [gen_case(rng) for _ in range(n)]
    results = common.pmap(_work, cases, init=_init, initargs=(cicada,), chunksize=8)
    feats = {}
    for case, (verdict, sig, res) in zip(cases, results):
        rep.case(json.dumps(case, sort_keys=True), True,
                 sample={"line": res.get("line"), "expected": res.get("expected"), "population": res.get("population")})
        for w in case["words"]:
            k = w["kind"] + ":" + w["feat"].split("=")[0]
            feats[k] = feats.get(k, 0) + 1
        if verdict == "held":
            rep.hold()
        elif verdict == "violated":
            rep.violate(sig, case, res)
        else:
            rep.inconc(sig, res)
    rep.extra["word_features_exercised"] = feats
    return rep.finish()


def replay(path):
    common.build_helpers()
    cicada = common.build_cicada("debug")
    _init(cicada)
    with open(path) as f:
        data = json.load(f)
    bad = 0
    for c in data["cases"]:
        v, sig, res = judge(c["case"])
        print(v, sig, json.dumps(res, default=str)[:600])
        if v == "violated":
            bad = 1
    if bad:
        print("VIOLATION property=C12 replay=%s" % path)
    return bad
