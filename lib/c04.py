"""C04 redirections connect exactly the named descriptors to the named files.

Monitor: the redirected command is the observer vp_io (records the bytes it finds on stdin,
then writes `O:<id>` to fd 1 and `E:<id>` to fd 2) or an output-producing builtin; neighbours in
the pipeline are observers too (vp_out feeds known bytes, vp_st snk hashes what arrives); a
follow-up `vp_io Z $?` and `vp_snap` record the status and that nothing leaked.  The oracle is a
reference model of open file descriptions replayed on the same redirection list."""
import json
import os

import common
from common import Report, Sandbox, run_cicada, crashed

_sb = None
FILES = ["f1", "f2", "f3"]


def _init(cicada):
    global _sb
    _sb = Sandbox(cicada, "c04")


def fnv(data):
    h = 14695981039346656037
    for b in data:
        h ^= b
        h = (h * 1099511628211) & 0xFFFFFFFFFFFFFFFF
    return "%016x" % h


# ---------------------------------------------------------------- model

class Desc:
    """an open file description"""

    def __init__(self, kind, name=None, append=False):
        self.kind = kind          # 'file' | 'drvout' | 'drverr' | 'pipe'
        self.name = name
        self.append = append
        self.off = 0


def model(case, fs):
    """fs: dict name -> bytes for existing regular files (mutated).  Returns dict with
    ran, stdin, drvout, drverr, pipe (bytes to next stage)."""
    pos = case["pos"]
    out = {"drvout": b"", "drverr": b"", "pipe": b"", "ran": True, "stdin": None}
    fd1 = Desc("pipe") if pos in ("first", "middle") else Desc("drvout")
    fd2 = Desc("drverr")
    stdin = case["feed"] if pos in ("middle", "last") else b""
    fds = {1: fd1, 2: fd2}
    for rd in case["redirs"]:
        op = rd["op"]
        if op == "<":
            t = rd["target"]
            if t not in fs:
                out["ran"] = False
                break
            stdin = ("file", t)      # read when the command runs, after all redirections
        elif op == "<<<":
            stdin = (b"" if rd["word"] in ('""', "''") else rd["word"].encode()) + b"\n"       # (an empty word is still a word)
        elif op in ("2>&1",):
            fds[2] = fds[1]
        elif op in ("1>&2", ">&2"):
            fds[1] = fds[2]
        else:
            fd = 2 if op.startswith("2") else 1
            append = op.endswith(">>")
            t = rd["target"]
            if t in ("nodir/x", "dir1"):
                out["ran"] = False
                break
            if not append or t not in fs:
                if not append:
                    fs[t] = b""
                else:
                    fs.setdefault(t, b"")
            fds[fd] = Desc("file", t, append)
    if not out["ran"]:
        return out
    if isinstance(stdin, tuple):
        stdin = fs[stdin[1]]
    out["stdin"] = stdin
    for fd, data in case["emits"]:
        d = fds[fd]
        if d.kind == "file":
            cur = fs.get(d.name, b"")
            if d.append:
                cur = cur + data
            else:
                cur = cur[:d.off].ljust(d.off, b"\0") + data + cur[d.off + len(data):]
                d.off += len(data)
            fs[d.name] = cur
        elif d.kind == "pipe":
            out["pipe"] += data
        else:
            out[d.kind] += data
    return out


# --------------------------------------------------------------- render

def render_redir(rd):
    op = rd["op"]
    sp = " " if rd.get("space", True) else ""
    if op in ("2>&1", "1>&2", ">&2"):
        return op
    if op == "<<<":
        return "<<<" + sp + rd["word"]
    return op + sp + rd["target"]


def render(case):
    cmd = case["cmd"] + "".join(" " + render_redir(r) for r in case["redirs"])
    pos = case["pos"]
    if pos == "first":
        pl = cmd + " | vp_st snk @N"
    elif pos == "middle":
        pl = "vp_out P | " + cmd + " | vp_st snk @N"
    elif pos == "last":
        pl = "vp_out P | " + cmd
    else:
        pl = cmd
    pre = "alias zz=vp_b ; " if case["cmd"].startswith(("alias ", "unalias")) else ""
    return pre + pl + " ; vp_io Z $? ; vp_snap"


OPCLASS = {">": "out1-file", ">>": "out1-file", "1>": "out1-file", "1>>": "out1-file",
           "2>": "out2-file", "2>>": "out2-file", "2>&1": "dup2to1", "1>&2": "dup1to2", ">&2": "dup1to2",
           "<": "in-file", "<<<": "here-string"}


def opclasses(case):
    return "+".join(sorted({OPCLASS[rd["op"]] for rd in case["redirs"]})) or "none"


def rule_of(sig):
    return sig.split(":")[1] if sig else None


def judge(case):
    """judge, then shrink a violating case (drop redirections, simplify the position) while the same
    rule stays violated, and sign the minimal case: independent defects in one random command are
    reported separately and the signature space stays small."""
    v, sig, res = judge1(case)
    if v != "violated":
        return v, sig, res
    rule = rule_of(sig)
    cur = case
    changed = True
    while changed:
        changed = False
        for i in range(len(cur["redirs"])):
            cand = dict(cur, redirs=cur["redirs"][:i] + cur["redirs"][i + 1:])
            v2, sig2, res2 = judge1(cand)
            if v2 == "violated" and rule_of(sig2) == rule:
                cur, sig, changed = cand, sig2, True
                break
        if not changed and cur["pos"] != "only":
            cand = dict(cur, pos="only")
            v2, sig2, res2 = judge1(cand)
            if v2 == "violated" and rule_of(sig2) == rule:
                cur, sig, changed = cand, sig2, True
    res["minimal_line"] = render(cur)
    res["minimal_case_redirs"] = cur["redirs"]
    return v, sig, res


def judge1(case):
    sb = _sb
    sb.reset_log()
    sb.clean_work()
    fs = {}
    for n, st in case["init"].items():
        if st == "old":
            fs[n] = b"OLD\n"
            with open(os.path.join(sb.work, n), "wb") as f:
                f.write(b"OLD\n")
    os.mkdir(os.path.join(sb.work, "dir1"))
    with open(os.path.join(sb.vpdir, "out.P"), "wb") as f:
        f.write(case["feed"])
    fs0 = dict(fs)
    exp = model(case, fs)
    line = render(case)
    r = run_cicada(sb, ["-c", line], timeout=20.0)
    recs = sb.records()
    res = {"line": line, "rc": r.rc, "stdout": r.out.decode("utf-8", "replace"),
           "stderr": r.err.decode("utf-8", "replace")[-400:]}
    feat = "cmd=%s:pos=%s" % ("builtin" if case["builtin"] else "external", case["pos"])
    ops = opclasses(case)
    if r.timed_out:
        res["diag"] = r.diag
        return ("violated" if r.diag and r.diag["kind"] == "blocked" and
                all(p["cpu_ticks"] == 0 for p in r.diag["procs"]) else "inconclusive",
                "C04:hang:%s:ops=%s" % (feat, ops), res)
    c = crashed(r)
    if c:
        return ("violated", "C04:shell-crash:%s:%s" % (c.split(" ")[0], ops), res)
    a = [x for x in recs if x["name"] == "vp_io" and x["argv"][1:2] == ["A"]]
    z = [x for x in recs if x["name"] == "vp_io" and x["argv"][1:2] == ["Z"]]
    snap = [x for x in recs if x["name"] == "vp_snap"]
    snk = [x for x in recs if x["name"] == "vp_st" and x["kind"] == "end"]
    listing = sb.listing()
    files = {k: v[1] for k, v in listing.items() if v[0] == "f"}
    res["files"] = {k: v.decode("latin1") for k, v in files.items()}
    res["expected_files"] = {k: v.decode("latin1") for k, v in fs.items()} if exp["ran"] else "(not run)"
    # --- no file but the named targets: an operator character inside a quoted or escaped argument names nothing
    extra = sorted(set(listing) - set(FILES) - {"dir1"})
    if extra:
        res["unexpected_entries"] = extra
        return ("violated", "C04:file-created-that-no-redirection-names:%s:%s" % (
            feat, "argument-with-quoted-operator" if case.get("decoys") else "no-such-argument"), res)
    # --- follow-up command and shell must be unaffected whatever happened
    if len(z) != 1 or len(snap) != 1:
        return ("violated", "C04:follow-up-command-did-not-run:%s:ops=%s" % (feat, ops), res)
    zr = z[0]
    zs = zr["std"]
    if None in zs or zs[1][1] != r.stdout_ino or zs[2][1] != r.stderr_ino or zs[0][2] != "chr":
        res["follow_up_std"] = zs
        return ("violated", "C04:redirection-leaked-into-next-command:%s:ops=%s" % (feat, ops), res)
    shell_fds = sorted(fd for fd, _ in snap[0]["pfds"])
    if shell_fds != [0, 1, 2]:
        res["shell_fds"] = snap[0]["pfds"]
        return ("violated", "C04:shell-descriptors-changed:%s:ops=%s" % (feat, ops), res)
    status = zr["argv"][2] if len(zr["argv"]) > 2 else None
    # --- command that must not run
    if not exp["ran"]:
        bad = [rd for rd in case["redirs"] if rd.get("target") in ("nodir/x", "dir1", "missing")]
        why = "unopenable=%s" % ((OPCLASS[bad[0]["op"]] + ("" if bad[0].get("space", True) or bad[0]["op"] not in ("<", "<<<")
                                                          else "(attached)")) if bad else "?")
        if bad and bad[0]["op"] == "<" and any(rd["op"] in ("<", "<<<") for rd in case["redirs"][case["redirs"].index(bad[0]) + 1:]):
            # only the last input redirection of a command is kept: an earlier one is never opened
            why = "unopenable=in-file-overridden-by-a-later-input-redirection"
        ran = bool(a) if not case["builtin"] else any(
            m in r.out or m in r.err or any(m in v for v in files.values()) for m in [e[1] for e in case["emits"][:1]])
        # (a builtin that prints nothing leaves no trace of having run: only its status is judged)
        if ran:
            return ("violated", "C04:ran-despite-unopenable-target:%s:%s" % (feat, why), res)
        if case["pos"] in ("only", "last") and status == "0":
            return ("violated", "C04:status-zero-despite-unopenable-target:%s:%s" % (feat, why), res)
        # files that are not targets of this command must be untouched
        targets = {rd.get("target") for rd in case["redirs"]}
        for n in FILES:
            if n not in targets and files.get(n) != fs0.get(n):
                return ("violated", "C04:unrelated-file-changed:%s" % feat, res)
        return ("held", None, res)
    # --- command that must run
    if not case["builtin"]:
        if len(a) != 1:
            return ("violated", "C04:command-did-not-run-once:%s:ops=%s:got=%d" % (feat, ops, len(a)), res)
        if a[0]["stdin"] != exp["stdin"]:
            res["stdin_observed"] = a[0]["stdin"].decode("latin1")
            res["stdin_expected"] = exp["stdin"].decode("latin1")
            inop = [rd["op"] + ("" if rd.get("space", True) else "(attached)") for rd in case["redirs"]
                    if rd["op"] in ("<", "<<<")]
            return ("violated", "C04:stdin-content:%s:in=%s" % (feat, inop[0] if inop else "default"), res)
    for n in FILES:
        if files.get(n) != fs.get(n):
            return ("violated", "C04:file-content:%s:ops=%s" % (feat, ops), res)
    exp_out = exp["drvout"] + b"O:Z\n"
    if r.out != exp_out:
        res["stdout_expected"] = exp_out.decode("latin1")
        return ("violated", "C04:driver-stdout:%s:ops=%s" % (feat, ops), res)
    keep = [l for l in r.err.split(b"\n") if l.startswith((b"O:", b"E:", b"alias ", b"cicada: alias", b"cicada: unalias"))]
    exp_err = [l for l in (exp["drverr"] + b"E:Z\n").split(b"\n") if l]
    if keep != exp_err:
        res["stderr_expected"] = [x.decode("latin1") for x in exp_err]
        return ("violated", "C04:driver-stderr:%s:ops=%s" % (feat, ops), res)
    if case["pos"] in ("first", "middle"):
        if len(snk) != 1:
            return ("inconclusive", "sink record missing", res)
        if snk[0]["nin"] != len(exp["pipe"]) or snk[0]["hin"] != fnv(exp["pipe"]):
            res["pipe_expected"] = exp["pipe"].decode("latin1")
            res["pipe_nin"] = snk[0]["nin"]
            return ("violated", "C04:next-stage-input:%s:ops=%s" % (feat, ops), res)
    if case["pos"] in ("only", "last"):
        want = "0" if not case["builtin"] else str(case["builtin_status"])
        if status != want:
            return ("violated", "C04:status:%s:ops=%s" % (feat, ops), res)
    return ("held", None, res)


OUT_OPS = [">", ">>", "1>", "2>", "2>>", "2>&1", "1>&2", ">&2", "1>>"]
DECOY_ARGS = ["k='x > zz1'", '"q > zz2"', "'>'", "\\>", 'k="y>zz3"', "--opt='2> zz4'", "'a >> zz5'", "n='p < zz6'", "k='2>&1'", "v=\\>zz7"]


def gen_case(rng, thorough):
    builtin = rng.random() < 0.3
    if builtin:
        which = rng.choice(["alias-found", "alias-missing", "unalias-missing", "silent"])
        if which == "silent":
            # a builtin that prints nothing at all: its redirection targets must still be created / truncated
            cmd, emits, bst = rng.choice(["alias", "cd .", "export VQ=1", "jobs", "unalias zz"]), [], 0
        elif which == "alias-found":
            cmd, emits, bst = "alias zz", [(1, b"alias zz='vp_b'\n")], 0
        elif which == "alias-missing":
            cmd, emits, bst = "alias nosuch", [(2, b"cicada: alias: nosuch: not found\n")], 1
        else:
            cmd, emits, bst = "unalias nosuch", [(2, b"cicada: unalias: nosuch: not found\n")], 1
    else:
        cmd, emits, bst = "vp_io A", [(1, b"O:A\n"), (2, b"E:A\n")], 0
    decoys = []
    if not builtin and rng.random() < 0.3:
        # arguments that hold an operator character inside quotes (as a whole word, or starting in the middle of a word) or
        # escaped: they are data, whatever redirections the command has besides
        decoys = rng.sample(DECOY_ARGS, rng.randint(1, 2))
        cmd = cmd + " " + " ".join(decoys)
    pos = rng.choice(["only", "only", "first", "middle", "last"])
    nred = rng.choice([0, 1, 1, 2, 2, 3, 4])
    redirs = []
    have_in = 0
    fail = rng.random() < 0.15
    for i in range(nred):
        # (up to two input redirections: the later one is the one that counts)
        if have_in < 2 and rng.random() < (0.25 if have_in == 0 else 0.4):
            have_in += 1
            # (the attached spelling is an open finding of its own: never combined with a second input redirection)
            attached = (not builtin) and have_in == 1 and rng.random() < 0.15
            if attached:
                have_in = 2
            if rng.random() < 0.5:
                redirs.append({"op": "<", "target": rng.choice(FILES), "space": not attached})
            else:
                redirs.append({"op": "<<<", "word": rng.choice(["w", "hello", "x=1", "a.b", '""', "''"]), "space": not attached})
            continue
        op = rng.choice(OUT_OPS)
        rd = {"op": op}
        if op not in ("2>&1", "1>&2", ">&2"):
            rd["target"] = rng.choice(FILES)
            rd["space"] = rng.random() < 0.6
        redirs.append(rd)
    if fail and redirs:
        k = rng.randrange(len(redirs))
        rd = redirs[k]
        if rd["op"] == "<":
            rd["target"] = "missing"
        elif "target" in rd:
            rd["target"] = rng.choice(["nodir/x", "dir1"])
    init = {n: rng.choice(["absent", "old"]) for n in FILES}
    # `<` needs an existing file unless the failure is the point
    for rd in redirs:
        if rd["op"] == "<" and rd["target"] != "missing":
            init[rd["target"]] = "old"
    feed = rng.choice([b"", b"fed\n", b"two\nlines\n", bytes(range(256)) * 3])
    return {"cmd": cmd, "emits": emits, "builtin": builtin, "builtin_status": bst, "pos": pos,
            "redirs": redirs, "init": init, "feed": feed, **({"decoys": decoys} if decoys else {})}


def _fix(case):
    case = dict(case)
    case["emits"] = [(fd, d.encode("latin1") if isinstance(d, str) else d) for fd, d in case["emits"]]
    if isinstance(case["feed"], str):
        case["feed"] = case["feed"].encode("latin1")
    return case


def _work(case):
    try:
        return judge(case)
    except Exception as e:
        import traceback
        return ("inconclusive", "harness: %r %s" % (e, traceback.format_exc()[-400:]), {})


def run(tier, seed):
    common.build_helpers()
    cicada = common.build_cicada("debug")
    rep = Report("C04", tier, seed)
    rep.rule = ("random commands (observer vp_io or an output-producing builtin) with 0..4 redirections from "
                "{>,>>,1>,1>>,2>,2>>,2>&1,1>&2,>&2,<,<<<}, attached or spaced, targets absent/present/unopenable, "
                "in only/first/middle/last pipeline position, followed by an observer command and a snapshot of "
                "the shell.  Non-trivial = at least one redirection; distinct by the full case.")
    rep.assumptions = ["reference model of open file descriptions (separate offsets per open, O_APPEND, "
                       "truncate at open) written from POSIX semantics",
                       "when a target cannot be opened nothing is demanded about files named by the same command"]
    rng = common.rng_for(seed, "C04")
    n = 60000 if tier == "thorough" else 8000
    cases = [gen_case(rng, tier == "thorough") for _ in range(n)]
    results = common.pmap(_work, cases, init=_init, initargs=(cicada,), chunksize=4)
    opsets = set()
    for case, (verdict, sig, res) in zip(cases, results):
        key = json.dumps(case, sort_keys=True, default=lambda b: b.decode("latin1"))
        rep.case(key, bool(case["redirs"]), sample={"line": res.get("line"), "files": res.get("files"),
                                                     "expected_files": res.get("expected_files")})
        opsets.add(tuple(rd["op"] for rd in case["redirs"]))
        rep.count("pos_" + case["pos"])
        rep.count("builtin" if case["builtin"] else "external")
        if verdict == "held":
            rep.hold()
        elif verdict == "violated":
            rep.violate(sig, json.loads(key), res)
        else:
            rep.inconc(sig, res)
    rep.extra["distinct_redirection_sequences"] = len(opsets)
    return rep.finish()


def replay(path):
    common.build_helpers()
    cicada = common.build_cicada("debug")
    _init(cicada)
    with open(path) as f:
        data = json.load(f)
    bad = 0
    for c in data["cases"]:
        v, sig, res = judge(_fix(c["case"]))
        print(v, sig, json.dumps(res, default=str)[:1000])
        if v == "violated":
            bad = 1
    if bad:
        print("VIOLATION property=C04 replay=%s" % path)
    return bad
