"""C10 parameter expansion substitutes current values, once, and terminates.

Monitor: observer vp_argv receives the generated word; `$?` is fixed by a preceding vp_status,
`$$` is the pid of the cicada process the driver started; non-termination is decided by the
step-budget hook (CICADA_VERIF_STEP_BUDGET) turning an unbounded rewrite loop into a panic, with a
wall-clock watchdog + /proc diagnosis behind it.  Oracle: a single-pass reference substitution."""
import json
import re

import common
from common import Report, Sandbox, run_cicada, crashed

_sb = None
NAMES = ["A", "AB", "A_", "B", "X", "Y", "Z"]

VALUE_CLASSES = {
    "plain": ["v1", "abc", "0", "-x", "/p/q", "a.b"],
    "blanks": ["two words", " lead", "trail ", "a  b"],
    "dollar-ref": ["$B", "${B}", "x$B", "$B$B", "${A_}z"],
    "dollar-digit": ["$1", "a$1b", "${2}", "$0"],
    "dollar-other": ["$", "a$", "$-", "$.", "$?x", "$$"],
    "regex-special": ["a.*b", "(x)", "[y]", "a+b?", "^c$", "x|y"],
    "backslash": ["\\1", "a\\b", "\\$B"],
    "braces": ["{a,b}", "x{1,2}y", "{}", "{a}"],
    "self-ref": None,      # X='$X'
    "mutual-ref": None,    # Y='$Z', Z='$Y'
    "empty": [""],
    "equals-colon": ["a=b", "k:v", "="],
    "glob-tilde": ["*", "~", "~/x", "a*"],
}


def _init(cicada):
    global _sb
    _sb = Sandbox(cicada, "c10")
    import os
    for n in ("a", "aa", "b"):
        open(os.path.join(_sb.work, n), "w").close()


def model(word, env, status, pid):
    """single pass, left to right, greedy names; returns the substituted text"""
    out = []
    i = 0
    n = len(word)
    while i < n:
        c = word[i]
        if c != "$":
            out.append(c)
            i += 1
            continue
        m = re.match(r"\$\{([A-Za-z0-9_]+|\$|\?)\}", word[i:])
        if not m:
            m = re.match(r"\$([A-Za-z0-9_]+|\$|\?)", word[i:])
        if not m:
            out.append("$")
            i += 1
            continue
        key = m.group(1)
        if key == "?":
            out.append(str(status))
        elif key == "$":
            out.append(str(pid))
        else:
            out.append(env.get(key, ""))
        i += len(m.group(0))
    return "".join(out)


def norm(s):
    return " ".join(s.split(" ")).strip() if True else s


def blanks_norm(s):
    return re.sub(r" +", " ", s).strip(" ")


# other words of the same command, written with every quote tag: (text written, argument expected)
NEIGHBOURS = [("pl", "pl"), ("\\$A", "$A"), ("\\|x", "|x"), ("'s q'", "s q"), ('"d q"', "d q"), ("''", ""), ("a\\ b", "a b")]
_nb = ((), ())      # (before, after) index tuples for the case being judged
_lb = False         # the word being judged has a brace list of its own (written in the line, not brought in by a value)


def expected_text(word, quote, env, status, pid):
    want = model(word, env, status, pid)
    if _lb and quote == "unq":
        # the line's own brace list is expanded around the inserted value (values of these cases hold nothing the brace
        # pass could take for a list of its own)
        import c12
        want = " ".join(c12.brace_expand(want))
    return want


def run_word(segs, quote, env, status, how):
    """segs: list of ('lit', text) | ('ref', form, name).  env: name -> value.
    how: 'export' (driver environment) | 'assign' (shell variables set in the line)"""
    word = ""
    for sg in segs:
        if sg[0] == "lit":
            word += sg[1]
        else:
            form, name = sg[1], sg[2]
            word += ("${%s}" % name) if form == "brace" else ("$" + name)
    q = {"unq": "", "dq": '"', "sq": "'"}[quote]
    pre = ""
    extra = {}
    if how == "export":
        extra = dict(env)
    elif how == "assign":
        for k, v in env.items():
            pre += "%s='%s' ; " % (k, v)     # values never contain a single quote
    elif how == "assign-then-export":
        # the *current* value is the exported one; a stale shell variable of the same name exists
        for k, v in env.items():
            if "~" in v:
                # `export` applies its own tilde expansion to the value (even quoted): not C10's subject
                pre += "%s='%s' ; " % (k, v)
            else:
                pre += "%s='stale-%s' ; export %s='%s' ; " % (k, k, k, v)
    elif how == "assign-export-assign":
        # three steps on one name: the last assignment is the current value
        for k, v in env.items():
            pre += "%s='stale-%s' ; export %s='old-%s' ; %s='%s' ; " % (k, k, k, k, k, v)
    elif how == "read":
        # the value arrives through `read` into a name that already holds an exported value
        extra = {k: "old-" + k for k in env}
        for k, v in env.items():
            pre += "read %s <<< '%s' ; " % (k, v)
    else:   # export-then-assign: an exported name re-assigned as a plain variable takes the new value
        extra = {k: "old-" + k for k in env}
        for k, v in env.items():
            pre += "%s='%s' ; " % (k, v)
    bef = "".join(NEIGHBOURS[i][0] + " " for i in _nb[0])
    aft = "".join(" " + NEIGHBOURS[i][0] for i in _nb[1])
    line = "%svp_status %d m ; vp_argv %s%s%s%s%s" % (pre, status, bef, q, word, q, aft)
    sb = _sb
    sb.reset_log()
    r = run_cicada(sb, ["-c", line], timeout=20.0, env_extra=extra, budget=5000)
    recs = [x for x in sb.records() if x["name"] == "vp_argv"]
    return word, line, r, recs


def symptom(word, quote, env, status, r, recs):
    if b"step budget exceeded" in r.err:
        return "expansion-does-not-terminate"
    if r.timed_out:
        if r.diag and r.diag["kind"] == "spin":
            return "expansion-does-not-terminate"
        return "TIMEOUT"
    if crashed(r):
        return "shell-crash"
    if len(recs) != 1:
        return "program-ran-%d-times" % len(recs)
    got = recs[0]["argv"][1:]
    nbv, nav = [NEIGHBOURS[i][1] for i in _nb[0]], [NEIGHBOURS[i][1] for i in _nb[1]]
    if nbv or nav:
        if got[:len(nbv)] != nbv or (nav and got[len(got) - len(nav):] != nav) or len(got) < len(nbv) + len(nav):
            return "neighbouring-word-changed-or-value-misplaced"
        got = got[len(nbv):len(got) - len(nav)]
    if quote == "sq":
        return None if got == [word] else "single-quoted-text-changed"
    want = expected_text(word, quote, env, status, r.pid)
    if quote == "dq":
        if got == [want]:
            return None
        if len(got) != 1:
            return "not-a-single-argument"
        return "wrong-value"
    if blanks_norm(" ".join(got)) == blanks_norm(want):
        return None
    return "wrong-value"


def _brace_pass_would_change(text):
    import c12
    try:
        return any(c12.brace_expand(w) != [w] or c12.range_expand(w) != [w] for w in text.split(" ") if w)
    except Exception:
        return True


def _glob_pass_would_change(text):
    """the scratch directory holds a, aa, b: a word with `*` is replaced only when it matches one of them"""
    import fnmatch

    def may_match(w):
        if "*" not in w:
            return False
        if "/" in w or w.startswith("."):
            return True          # reaches outside the scratch directory (`/a*`, `.*/*` goes through `..`): matches there are real
        return any(fnmatch.fnmatchcase(f, w) for f in ("a", "aa", "b"))
    return any(may_match(w) for w in text.split(" ") if w)


def value_class(name, env, classes):
    return classes.get(name, "unset")


def judge(case):
    global _nb, _lb
    _nb = (tuple(case.get("before", ())), tuple(case.get("after", ())))
    _lb = bool(case.get("literal_brace_list"))
    try:
        v, sig, res = _judge(case)
        if v == "violated" and (_nb[0] or _nb[1]):
            # does the word fail on its own as well?  if not, the neighbours matter: sign that
            _nb = ((), ())
            v0, sig0, res0 = _judge(case)
            if v0 == "held":
                nbs = "+".join(sorted({NEIGHBOURS[i][0] for i in tuple(case.get("before", ())) + tuple(case.get("after", ()))}))
                return (v, "C10:%s:only-next-to-other-words:%s:%s" % (case["quote"], nbs, sig.split(":")[-1]), res)
            return (v0, sig0, res0)
        return (v, sig, res)
    finally:
        _nb = ((), ())
        _lb = False


def _judge(case):
    segs = [tuple(s) for s in case["segs"]]
    quote, env, status, how, classes = case["quote"], case["env"], case["status"], case["how"], case["classes"]
    word, line, r, recs = run_word(segs, quote, env, status, how)
    sym = symptom(word, quote, env, status, r, recs)
    res = {"line": line, "how": how, "observed": [x["argv"][1:] for x in recs],
           "expected": expected_text(word, quote, env, status, r.pid) if quote != "sq" else word, "stderr": r.err.decode("utf-8", "replace")[-200:]}
    if sym is None:
        return ("held", None, res)
    if sym == "TIMEOUT":
        return ("inconclusive", "timeout without diagnosis", res)
    # 1. does it depend on how the variables got their values (assignment words are tokens too)?
    if how != "export":
        w3, l3, r3, recs3 = run_word(segs, quote, env, status, "export")
        s3 = symptom(w3, quote, env, status, r3, recs3)
        if s3 is None:
            vals = "".join(env.values())
            why = "brace-expanded" if ("{" in vals and "," in vals) else "changed"
            if how == "assign" or why == "brace-expanded":
                return ("violated", "C10:assignment-word-value-is-%s:%s" % (why, sym), res)
            return ("violated", "C10:value-set-by-%s-is-not-the-one-expanded:%s" % (how, sym), res)
    # 2. which later pass re-read the substituted text?  (decided on the text the model expects)
    exp = res["expected"]
    fam = None
    if re.search(r"\$\(.+\)", exp) or exp.count("`") >= 2:
        fam = "substituted-text-is-rescanned-for-command-substitution"
    elif quote == "unq" and "{" in exp and "}" in exp and _brace_pass_would_change(exp):
        # (only where the brace / range pass has something to expand in the inserted text: a group without a comma, `${B}`,
        # `{}` is put back as it was, so a wrong result there is not this finding)
        fam = "substituted-text-is-rescanned-by-brace-expansion"
    elif quote == "unq" and _glob_pass_would_change(exp):
        fam = "substituted-text-is-rescanned-by-glob-or-tilde-expansion"
    elif quote == "unq" and exp.startswith("~"):
        # (the tilde pass runs before parameter expansion: a tilde that comes out of a value is not its business)
        fam = "substituted-text-is-rescanned-by-the-tilde-pass"
    if fam:
        return ("violated", "C10:%s:%s:%s" % (quote, fam, sym), res)
    if case.get("literal_brace_list"):
        return ("violated", "C10:%s:value-next-to-a-brace-list-written-in-the-line:value=%s:%s" % (
            quote, "+".join(sorted(set(classes.values()) & {"backslash", "plain"})), sym), res)
    # 3. a single reference that fails on its own
    for sg in segs:
        if sg[0] != "ref":
            continue
        w2, l2, r2, recs2 = run_word([sg], quote, env, status, how)
        s2 = symptom(w2, quote, env, status, r2, recs2)
        if s2 and s2 != "TIMEOUT":
            form = sg[1] if sg[2] not in ("?", "$") else "special"
            res["minimal_line"] = l2
            return ("violated", "C10:%s:ref=%s:value=%s:%s" % (quote, form, value_class(sg[2], env, classes), s2), res)
    vcs = sorted({value_class(sg[2], env, classes) for sg in segs if sg[0] == "ref"})
    return ("violated", "C10:%s:combination:values=%s:%s" % (quote, "+".join(vcs), sym), res)


def gen_case(rng):
    # environment
    env, classes = {}, {}
    names = rng.sample(NAMES[:4], rng.randint(1, 4))
    for nme in names:
        cls = rng.choice([c for c in VALUE_CLASSES if VALUE_CLASSES[c]])
        env[nme] = rng.choice(VALUE_CLASSES[cls])
        classes[nme] = cls
    special = rng.random()
    if special < 0.08:
        env["X"] = "$X"
        classes["X"] = "self-ref"
        names = names + ["X"]
    elif special < 0.16:
        env["Y"], env["Z"] = "$Z", "$Y"
        classes["Y"] = classes["Z"] = "mutual-ref"
        names = names + ["Y"]
    nseg = rng.randint(1, 6)
    segs = []
    for _ in range(nseg):
        k = rng.random()
        if k < 0.35:
            segs.append(("lit", rng.choice(["a", "b1", "-", "/", ".", ":", "_x", "1", "x-y", ",", "%", "+", "@"])))
        elif k < 0.85:
            nm = rng.choice(names + ["AB", "A_", "NOPE"])
            segs.append(("ref", rng.choice(["plain", "brace"]), nm))
        else:
            segs.append(("ref", rng.choice(["plain", "brace"]), rng.choice(["?", "$"])))
    if not any(s[0] == "ref" for s in segs):
        segs.append(("ref", "plain", names[0]))
    if rng.random() < 0.05:
        # directed: a value that holds a brace group without a comma, referenced twice in a word that has a literal comma
        # (the brace pass looks at such a word and has to put every group back exactly as it was)
        nm = names[0]
        env[nm] = rng.choice(["${B}", "${A_}z", "{a}", "{}", "x{1}y"])
        classes[nm] = "dollar-ref" if env[nm].startswith("$") else "braces"
        f1, f2 = rng.choice(["plain", "brace"]), rng.choice(["plain", "brace"])
        segs = rng.choice([[("ref", f1, nm), ("lit", ","), ("ref", f2, nm)],
                           [("lit", "x"), ("ref", f1, nm), ("lit", ","), ("lit", "y"), ("ref", "brace", nm), ("lit", "z")],
                           [("ref", "brace", nm), ("lit", ","), ("ref", "plain", "NOPE"), ("lit", ","), ("ref", f2, nm)]])
    literal_brace_list = False
    if rng.random() < 0.05:
        # directed: the word has a brace list of its own next to (or around) the reference, and the value holds characters the
        # brace pass treats specially while it copies text (a backslash) but nothing it could take for a list
        nm = names[0]
        env[nm] = rng.choice(["a\\d+b", "\\1", "a\\b", "c:\\dir\\f", "v1", "a.b", "(x)", "^c$", "k:v"])
        classes[nm] = "backslash" if "\\" in env[nm] else "plain"
        f1 = rng.choice(["plain", "brace"])
        segs = rng.choice([[("ref", f1, nm), ("lit", "{1,2}")], [("lit", "{x,y}"), ("ref", f1, nm)],
                           [("lit", "{"), ("ref", f1, nm), ("lit", ",z}")], [("lit", "p"), ("ref", "brace", nm), ("lit", "{1,2}q")],
                           [("lit", "{x,"), ("ref", f1, nm), ("lit", "}"), ("ref", f1, nm)]])
        literal_brace_list = True
    before, after = [], []
    if rng.random() < 0.35:
        before = [rng.randrange(len(NEIGHBOURS)) for _ in range(rng.randint(1, 2))]
        after = [rng.randrange(len(NEIGHBOURS))] if rng.random() < 0.4 else []
    how = rng.choice(["export", "assign", "export", "assign", "assign-then-export", "export-then-assign", "assign-export-assign", "read"])
    if how == "read" and any(v != v.strip(" ") or "\\" in v or v == "" for v in env.values()):
        # `read` trims blanks at both ends of the line and has its own backslash rules: not this property's subject
        how = "assign-export-assign"
    return {"segs": segs, "quote": rng.choice(["unq", "dq", "dq", "sq"]), "env": env, "classes": classes, "before": before, "after": after, "how": how,
            "status": rng.choice([0, 3, 127]), **({"literal_brace_list": True} if literal_brace_list else {})}


def _work(case):
    try:
        return judge(case)
    except Exception as e:
        import traceback
        return ("inconclusive", "harness: %r %s" % (e, traceback.format_exc()[-500:]), {})


def run(tier, seed):
    common.build_helpers()
    cicada = common.build_cicada("debug")
    rep = Report("C10", tier, seed)
    rep.rule = ("words of 1..6 adjacent segments {literal, $N, ${N}, $?, $$} over names A AB A_ B X Y Z NOPE (prefixes "
                "of one another, unset ones), unquoted / double-quoted / single-quoted, under environments (exported by "
                "the driver, assigned in the line, assigned then exported with a new value, exported then re-assigned, assigned-exported-reassigned, or read into an exported name) whose values are plain, blank-containing, $-references, $1, "
                "regex-special, backslashes, braces, glob/tilde, empty, self- and mutually referential (5%: the word has a brace list of its own around or next to the reference); a third of the words stand next to "
                "1..3 other words of the same command written plain, quoted, empty or with an escaped $ / | / blank.  "
                "Non-trivial = at least one reference; distinct by (word, quote, environment, how).")
    rep.assumptions = ["names are matched greedily as [A-Za-z0-9_]+ (as the implementation's own pattern does)",
                       "unquoted words are compared modulo runs of blanks (field splitting is not specified)",
                       "a rewrite loop exceeding 5000 iterations on a word of <=6 references is non-termination"]
    rng = common.rng_for(seed, "C10")
    n = 80000 if tier == "thorough" else 15000
    cases = [gen_case(rng) for _ in range(n)]
    results = common.pmap(_work, cases, init=_init, initargs=(cicada,), chunksize=8)
    vcs = {}
    for case, (verdict, sig, res) in zip(cases, results):
        rep.case(json.dumps(case, sort_keys=True), True, sample={"line": res.get("line"), "expected": res.get("expected"),
                                                                  "observed": res.get("observed")})
        for c in case["classes"].values():
            vcs[c] = vcs.get(c, 0) + 1
        rep.count("quote_" + case["quote"])
        if verdict == "held":
            rep.hold()
        elif verdict == "violated":
            rep.violate(sig, case, res)
        else:
            rep.inconc(sig, res)
    rep.extra["value_classes_exercised"] = vcs
    return rep.finish()


def replay(path):
    common.build_helpers()
    cicada = common.build_cicada("debug")
    _init(cicada)
    with open(path) as f:
        data = json.load(f)
    bad = 0
    for c in data["cases"]:
        v, sig, res = judge(c["case"])
        print(v, sig, json.dumps(res, default=str)[:600])
        if v == "violated":
            bad = 1
    if bad:
        print("VIOLATION property=C10 replay=%s" % path)
    return bad
