"""C13 results of expansions are data and are never re-read as shell syntax.

Monitor: observer vp_argv records argv, its descriptors (identity of fd 0/1/2) and its parent;
directory listing before/after shows files created or truncated by a redirection that should
not exist; any additional helper record is an extra command."""
import json
import os

import common
from common import Report, Sandbox, run_cicada, crashed

_sb = None

VALUES = {
    "out-redirect": [">", "a>b", ">zz", ">>zz", "x >y"],
    "in-redirect": ["<", "<f", "a<f", "<<<", "< f"],
    "pipe": ["|", "a|b", "a | vp_b x", "||"],
    "ampersand": ["&", "x &", "a&", "&&", "a && vp_b x"],
    "dup": ["2>&1", "1>&2", ">&2"],
    "list-comment": [";x", "a;vp_b x", "#c", "a #c", "; vp_b x"],
    # text that reads as a command substitution: nothing in it may run
    "substitution-syntax": ["$(vp_b x)", "a$(vp_b x)b", "`vp_b x`", "$(vp_b x) > zz"],
    # several lines, one of them with an operator
    "multi-line": ["l1\n>zz", "step 1\ncopy src -> dst", "a\n| vp_b x", "x\n<f"],
}


# the word written before/around the expansion: other tokens of the same command with every tag
NEIGHBOURS = [("p1", "p1"), ("'s q'", "s q"), ('"d q"', "d q"), ("\\$x", "$x"), ("\\|", "|"), ("''", ""), ("a\\ b", "a b"), ("mode=fast", "mode=fast")]


def _init(cicada):
    global _sb
    _sb = Sandbox(cicada, "c13")


# delivery -> (word written, text the word must become)
INNER_DELIVERIES = {
    "var-in-sub": ("$(vp_out I $V)", "R"),
    "var-in-sub-affixed": ("pre$(vp_out I $V)post", "preRpost"),
    "var-in-two-subs": ("$(vp_out I $V)$(vp_out J)", "RS"),
    "sub-in-sub": ("$(vp_out I $(vp_out K))", "R"),
    "var-in-backquote-affixed": ("x`vp_out I $V`", "xR"),
    "var-in-second-sub": ("x$(vp_out J)-$(vp_out I $V)", "xS-R"),
    "var-in-second-backquote": ("x`vp_out J`-`vp_out I $V`", "xS-R"),
}


def setup_dir(sb, fname=None, as_dir=False):
    sb.clean_work()
    with open(os.path.join(sb.work, "f"), "w") as f:
        f.write("decoy\n")
    if fname is not None and as_dir:
        # the name is that of a directory a wildcard in a directory position matches
        os.makedirs(os.path.join(sb.work, "d", fname))
        open(os.path.join(sb.work, "d", fname, "data.txt"), "w").close()
        os.makedirs(os.path.join(sb.work, fname))
        open(os.path.join(sb.work, fname, "data.txt"), "w").close()
    elif fname is not None:
        os.mkdir(os.path.join(sb.work, "d"))
        open(os.path.join(sb.work, "d", fname), "w").close()


def build(case):
    v, deliv, quote, pos = case["value"], case["delivery"], case["quote"], case["pos"]
    pre, extra = "", {}
    if deliv == "var":
        extra["V"] = v
        ref = "$V"
    elif deliv == "var-brace":
        extra["V"] = v
        ref = "${V}"
    elif deliv == "assigned-var":
        pre = "V='%s' ; " % v
        ref = "$V"
    elif deliv == "dollar-sub":
        ref = "$(vp_out K)"
    elif deliv == "backquote-sub":
        ref = "x`vp_out K`" if quote == "unq" else "`vp_out K`"
    elif deliv == "dollar-sub-pipe":
        ref = "$(vp_out K | vp_st flt 0)"       # the command text itself holds an operator character
    elif deliv == "backquote-sub-pipe":
        ref = "x`vp_out K | vp_st flt 0`" if quote == "unq" else "`vp_out K | vp_st flt 0`"
    elif deliv == "backquote-whole":
        ref = "`vp_out K`"          # the substitution is the entire word (the tokenizer gives such a word a tag of its own)
    elif deliv in INNER_DELIVERIES:
        # the expansion happens inside a substitution: the inner command (an observer that prints R) must receive the value as
        # data, and the word gets what that command printed
        if deliv != "sub-in-sub":
            extra["V"] = v
        ref = INNER_DELIVERIES[deliv][0]
    elif deliv == "glob":
        ref = "d/*"
    elif deliv == "glob-dir":
        ref = "*/data.txt" if pos in (0, "cmd") else "d/*/data.txt"
    else:
        raise ValueError(deliv)
    w = ('"%s"' % ref) if quote == "dq" else ref
    # an argument of the form name=<expansion> (it is not a leading assignment: the command word comes first)
    affix = case.get("affix", "")
    w = affix + w
    if pos == "prefix":
        # the expansion is the value of an assignment word in front of the command
        company = {None: "", "in-file": " < f", "here-string": " <<< hs", "out-file": " > o.txt"}[case.get("company")]
        return pre + "W=" + w + " vp_argv p1 p2" + company, extra, ["p1", "p2"]
    if pos == "cmd":
        # the expansion is the command word itself: whatever it yields names a program (that does not exist)
        return pre + w + " p1 p2", extra, None
    nb_written, nb_value = NEIGHBOURS[case.get("nb", 0)]
    words = [nb_written, "p2"]
    words.insert(pos, w)
    exp = v
    if deliv == "glob":
        exp = "d/" + v if quote == "unq" else "d/*"
    if deliv == "glob-dir":
        exp = ref if quote == "dq" else ref.replace("*", v)
    if deliv in INNER_DELIVERIES:
        exp = INNER_DELIVERIES[deliv][1]
    if deliv in ("backquote-sub", "backquote-sub-pipe") and quote == "unq":
        exp = "x" + v
    exp = affix + exp
    expargs = [nb_value, "p2"]
    expargs.insert(pos, exp)
    company = {None: "", "in-file": " < f", "here-string": " <<< hs", "out-file": " > o.txt"}[case.get("company")]
    return pre + "vp_argv " + " ".join(words) + company, extra, expargs


def run_case(case):
    sb = _sb
    setup_dir(sb, case["value"] if case["delivery"] in ("glob", "glob-dir") else None, case["delivery"] == "glob-dir")
    sb.reset_log()
    with open(os.path.join(sb.vpdir, "out.K"), "w") as f:
        f.write(case["value"] + "\n")
    for ident, text in (("I", "R\n"), ("J", "S\n")):
        with open(os.path.join(sb.vpdir, "out." + ident), "w") as f:
            f.write(text)
    line, extra, expargs = build(case)
    before = sb.listing()
    r = run_cicada(sb, ["-c", line], timeout=15.0, env_extra=extra, watch=["W"])
    return line, expargs, r, sb.records(), before, sb.listing()


def symptom(case, expargs, r, recs, before, after):
    if r.timed_out:
        return "hang" if r.diag and all(p["cpu_ticks"] == 0 for p in r.diag["procs"]) else "TIMEOUT"
    if crashed(r):
        return "shell-crash"
    company = case.get("company")
    if company == "out-file":
        after = {k: v for k, v in after.items() if k != "o.txt"}
    if after != before:
        return "file-created-or-changed"
    main = [x for x in recs if x["name"] == "vp_argv"]
    other = [x for x in recs if x["name"] not in ("vp_argv", "vp_out") and not (x["name"] == "vp_st" and case["delivery"].endswith("-pipe"))]
    if other:
        return "extra-command-ran"
    if case["delivery"] in INNER_DELIVERIES:
        inner = [x for x in recs if x["name"] == "vp_out" and x["argv"][1:2] == ["I"]]
        if len(inner) != 1:
            return "inner-command-ran-%d-times" % len(inner)
        if " ".join(" ".join(inner[0]["argv"][2:]).split()) != " ".join(case["value"].split()):
            return "inner-command-received-other-arguments"
    if case["pos"] == "cmd":
        # no redirection happened (listing unchanged, checked above) and nothing else ran; which error the
        # shell reports for the unknown program name is not this property's business
        return "extra-command-ran" if main else None
    if len(main) != 1:
        return "program-ran-%d-times" % len(main)
    m = main[0]
    got = m["argv"][1:]
    if case["pos"] == "prefix":
        if got != expargs:
            return "argument-text-changed" if len(got) == len(expargs) else "argument-count-changed"
        w = m["env"].get("W")
        wv = w[0] if w else None
        want = case["value"] if case["delivery"] not in ("glob", "glob-dir") else None
        if want is not None and (wv is None or " ".join(wv.split()) != " ".join(want.split())):
            return "prefixed-variable-not-the-produced-text"
    elif case["quote"] == "dq" or case["delivery"] in ("glob", "glob-dir"):
        if got != expargs:
            return "argument-text-changed" if len(got) == len(expargs) else "argument-count-changed"
    else:
        if " ".join(" ".join(got).split()) != " ".join(" ".join(expargs).split()):
            return "argument-text-changed"
    if m["ppid"] != r.pid:
        return "ran-in-background"
    st = m["std"]
    if company in ("in-file", "here-string"):
        # the genuine input redirection written on the line must still be the one applied
        if st[0] is None or st[0][2] == "chr":
            return "genuine-input-redirection-lost"
        if company == "in-file" and (st[0][2] != "reg" or st[0][1] != os.stat(os.path.join(_sb.work, "f")).st_ino):
            return "stdin-is-not-the-file-written-on-the-line"
    elif st[0] is None or st[0][2] != "chr":
        return "stdin-redirected"
    if company == "out-file":
        if st[1] is None or st[1][2] != "reg" or st[1][1] != os.stat(os.path.join(_sb.work, "o.txt")).st_ino:
            return "stdout-is-not-the-file-written-on-the-line"
    elif st[1] is None or st[1][1] != r.stdout_ino:
        return "stdout-redirected"
    if st[2] is None or st[2][1] != r.stderr_ino:
        return "stderr-redirected"
    if r.rc != 0:
        return "status-%d" % r.rc
    return None


def judge(case):
    line, expargs, r, recs, before, after = run_case(case)
    sym = symptom(case, expargs, r, recs, before, after)
    res = {"line": line, "value": case["value"], "expected": expargs,
           "observed": [x["argv"][1:] for x in recs if x["name"] == "vp_argv"],
           "new_files": sorted(set(after) - set(before)), "stderr": r.err.decode("utf-8", "replace")[-200:]}
    if sym is None:
        return ("held", None, res)
    if sym == "TIMEOUT":
        return ("inconclusive", "timeout", res)
    return ("violated", "C13:%s:%s:value=%s:pos=%s:neighbour=%s%s%s:%s" % (
        case["delivery"], case["quote"], case["cls"], {"cmd": "command-word", "prefix": "assignment-prefix"}.get(case["pos"]) or ["first", "middle", "last"][case["pos"]],
        NEIGHBOURS[case.get("nb", 0)][0].replace(":", ""),
        (":with-genuine-" + case["company"]) if case.get("company") else "", ":as-name=value-argument" if case.get("affix") else "", sym), res)


def gen_cases(tier):
    cases = []
    for cls, vals in VALUES.items():
        for v in vals:
            for deliv in ("var", "var-brace", "assigned-var", "dollar-sub", "backquote-sub", "backquote-whole", "dollar-sub-pipe",
                          "backquote-sub-pipe", "glob", "glob-dir"):
                if deliv in ("glob", "glob-dir") and ("/" in v or v in (".", "..")):
                    continue
                if deliv == "assigned-var" and "'" in v:
                    continue
                if "\n" in v and deliv in ("assigned-var", "glob", "glob-dir"):
                    continue
                for quote in ("unq", "dq"):
                    for pos in (0, 1, 2):
                        for nb in range(len(NEIGHBOURS)):
                            cases.append({"value": v, "cls": cls, "delivery": deliv, "quote": quote, "pos": pos, "nb": nb})
                    if deliv not in ("glob", "glob-dir", "backquote-whole", "dollar-sub-pipe", "backquote-sub-pipe") and not (deliv == "backquote-sub" and quote == "unq"):
                        cases.append({"value": v, "cls": cls, "delivery": deliv, "quote": quote, "pos": "cmd", "nb": 0})
                    if deliv not in ("glob", "glob-dir", "backquote-sub", "backquote-whole", "backquote-sub-pipe"):
                        for pos in (0, 1, 2):
                            # (unquoted only: a quote that starts in the middle of a word is not what this property is about)
                            if quote == "unq":
                                cases.append({"value": v, "cls": cls, "delivery": deliv, "quote": quote, "pos": pos, "nb": 0, "affix": "key="})
                        for company in (None, "out-file"):
                            cases.append({"value": v, "cls": cls, "delivery": deliv, "quote": quote, "pos": "prefix", "nb": 0, "company": company})
                    if deliv == "var":
                        # ... and the reference stands inside a substitution
                        for d2 in INNER_DELIVERIES:
                            if "\n" in v and d2 != "sub-in-sub":
                                continue
                            for pos in (0, 1, 2):
                                cases.append({"value": v, "cls": cls, "delivery": d2, "quote": quote, "pos": pos, "nb": 0})
                    for pos in (0, 1, 2):
                        # the same command also carries a genuine redirection written on the line
                        for company in ("in-file", "here-string", "out-file"):
                            cases.append({"value": v, "cls": cls, "delivery": deliv, "quote": quote, "pos": pos, "nb": 0, "company": company})
    return cases


def _work(case):
    try:
        return judge(case)
    except Exception as e:
        import traceback
        return ("inconclusive", "harness: %r %s" % (e, traceback.format_exc()[-500:]), {})


def run(tier, seed):
    common.build_helpers()
    cicada = common.build_cicada("debug")
    rep = Report("C13", tier, seed)
    rep.rule = ("every value of 7 classes (> a>b >>zz | a|b & 'x &' && <f <<< 2>&1 ;x #c $(cmd) `cmd` ...) x delivery "
                "{$V exported, ${V}, $V assigned in the line, $(cmd), `cmd` inside a word and as a whole word, $V inside a substitution (whole word, with text around it, next to a second substitution, in backquotes) and a substitution inside a substitution, * match of a file with that name, * in a directory position matching a directory with that name} x "
                "{unquoted, double-quoted} x argument position {first, middle, last} x 7 neighbouring words (plain, quoted, "
                "backslash-tagged, empty): enumerated completely; every combination again (plain neighbour) with a genuine "
                "`< f` / `<<< hs` / `> o.txt` written on the same command, which must still be the redirection applied; and "
                "every value as the command word itself (no file may appear, nothing may run) and as the value of an assignment word in front of the command (the command gets its own arguments, the variable the produced text); a class of multi-line values.  "
                "Thorough repeats the enumeration with longer random values built from the same operator characters.  "
                "Non-trivial = always; distinct by case.")
    rep.assumptions = ["unquoted results are compared modulo blank runs"]
    cases = gen_cases(tier)
    n_enum = len(cases)
    if tier == "thorough":
        rng = common.rng_for(seed, "C13")
        ops = [">", "<", "|", "&", ";", "#", ">>", "2>&1", "<<<", "&&", "||"]
        for _ in range(20000):
            parts = [rng.choice(ops + ["a", "b", " ", "x1", "f"]) for _ in range(rng.randint(1, 5))]
            v = "".join(parts).strip() or ">"
            if "'" in v or "/" in v or "\0" in v or v in ("f", "d", "o.txt"):
                continue          # (f, d, o.txt are the prepared directory's own entries)
            cls = "random-mix"
            cases.append({"value": v, "cls": cls, "delivery": rng.choice(["var", "var-brace", "assigned-var", "dollar-sub", "backquote-sub", "backquote-whole", "glob", "glob-dir"] + sorted(INNER_DELIVERIES)),
                          "quote": rng.choice(["unq", "dq"]), "pos": rng.randrange(3), "nb": rng.randrange(len(NEIGHBOURS)),
                          "company": rng.choice([None, None, "in-file", "here-string", "out-file"])})
    results = common.pmap(_work, cases, init=_init, initargs=(cicada,), chunksize=8)
    for case, (verdict, sig, res) in zip(cases, results):
        rep.case(json.dumps(case, sort_keys=True), True, sample={"line": res.get("line"), "value": case["value"]})
        rep.count("delivery_" + case["delivery"])
        if verdict == "held":
            rep.hold()
        elif verdict == "violated":
            rep.violate(sig, case, res)
        else:
            rep.inconc(sig, res)
    rep.extra["enumerated_cases"] = n_enum
    rep.extra["exhaustive"] = True
    return rep.finish()


def replay(path):
    common.build_helpers()
    cicada = common.build_cicada("debug")
    _init(cicada)
    with open(path) as f:
        data = json.load(f)
    bad = 0
    for c in data["cases"]:
        v, sig, res = judge(c["case"])
        print(v, sig, json.dumps(res, default=str)[:600])
        if v == "violated":
            bad = 1
    if bad:
        print("VIOLATION property=C13 replay=%s" % path)
    return bad
