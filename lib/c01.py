"""C01 quoted and escaped arguments reach the program verbatim.

Monitor: the invoked program is the observer vp_argv (logs its argv, descriptors, parent); a
follower observer after `|`, `;`, `&&`, `||` shows that the line was split where written and
nowhere else; the scratch directory holds decoy files and HOME is a sentinel so that a wrongly
applied glob / tilde / brace / variable expansion changes argv; directory listing before/after
shows redirections.  Oracle: argv[1:] == the argument texts, byte for byte."""
import itertools
import json
import os
import zlib

import common
from common import Report, Sandbox, run_cicada, crashed

META = list("|&;<>()$`\\\"'*?[]{},~#!=%^")
ALPHA = META + [" ", "\t", "a", "é", "中"]
assert len(ALPHA) == 30
# what may follow the arguments: nothing, an operator + second command, or a genuine input redirection of the same command
FOLLOWERS = ["", " | vp_b x", " ; vp_b x", " && vp_b x", " || vp_b x", " < a", " <<< hs"]
_sb = None


def _init(cicada):
    global _sb
    _sb = Sandbox(cicada, "c01")
    for n in ("a", "aa", "b", ".h"):
        open(os.path.join(_sb.work, n), "w").close()


def styles_for(t):
    out = []
    if "'" not in t:
        out.append("sq")
    if not any(c in t for c in '$`\\"'):
        out.append("dq")
    if t != "":
        out.append("esc")
    return out


def write_arg(t, style):
    if style == "sq":
        return "'" + t + "'"
    if style == "dq":
        return '"' + t + '"'
    return "".join(c if (c.isalnum()) else "\\" + c for c in t)


def render(args, follower, lead="", sep=" "):
    """args: list of (text, style)"""
    return lead + "vp_argv" + "".join(sep + write_arg(t, s) for t, s in args) + follower


def observe(line):
    sb = _sb
    sb.reset_log()
    before = sb.listing()
    r = run_cicada(sb, ["-c", line], timeout=15.0, env_extra={"VP_DELAY_MS": "0"})
    recs = sb.records()
    after = sb.listing()
    return r, recs, before, after


def symptom(args, follower, r, recs, before, after):
    """None if the execution is what the statement prescribes, else a symptom word"""
    if r.timed_out:
        return "hang" if r.diag and (r.diag["kind"] == "spin" or all(p["cpu_ticks"] == 0 for p in r.diag["procs"])) else "TIMEOUT"
    c = crashed(r)
    if c:
        return "shell-crash"
    if after != before:
        # restore the scratch directory for the next case
        for k in set(after) - set(before):
            try:
                os.unlink(os.path.join(_sb.work, k))
            except OSError:
                pass
        return "file-created-or-changed"
    main = [x for x in recs if x["name"] == "vp_argv"]
    foll = [x for x in recs if x["name"] == "vp_b"]
    other = [x for x in recs if x["name"] not in ("vp_argv", "vp_b")]
    want = [t for t, _ in args]
    if len(main) == 0:
        return "program-not-run"
    if len(main) > 1:
        return "program-run-twice"
    m = main[0]
    got = m["argv"][1:]
    if got != want:
        if len(got) < len(want):
            return "argument-dropped"
        if len(got) > len(want):
            return "argument-split-or-added"
        return "argument-changed"
    if m["ppid"] != r.pid:
        return "not-a-child-of-the-shell(backgrounded)"
    if follower in (" < a", " <<< hs"):
        if m["std"][0] is None or m["std"][0][2] == "chr" or (follower == " < a" and m["std"][0][2] != "reg"):
            return "genuine-input-redirection-not-applied"
    elif m["std"][0] is None or m["std"][0][2] != "chr":
        return "stdin-redirected"
    if follower.startswith(" | "):
        if m["std"][1] is None or m["std"][1][2] != "fifo" or m["std"][1][1] == r.stdout_ino:
            return "stdout-not-piped"
    elif m["std"][1] is None or m["std"][1][1] != r.stdout_ino:
        return "stdout-redirected"
    if m["std"][2] is None or m["std"][2][1] != r.stderr_ino:
        return "stderr-redirected"
    if m["open_fds"] != [0, 1, 2]:
        return None  # descriptor hygiene is C08's business
    exp_f = 0 if ("vp_b" not in follower or follower.startswith(" ||")) else 1
    if len(foll) != exp_f:
        return "follower-ran-%d-times" % len(foll)
    if exp_f and foll[0]["argv"][1:] != ["x"]:
        return "follower-argv-changed"
    if other:
        return "extra-command-ran"
    want_rc = 0
    if r.rc != want_rc:
        return "status-%s" % r.rc
    return None


def run_case(args, follower, lead="", sep=" "):
    line = render(args, follower, lead, sep)
    r, recs, before, after = observe(line)
    return line, symptom(args, follower, r, recs, before, after)


def chars_of(t):
    cs = sorted({c for c in t if not c.isalnum()})
    names = {" ": "SP", "\t": "TAB"}
    return "".join(names.get(c, c) for c in cs) or "none"


def classify(args, follower, lead, sep, sym, preserve=False):
    """shrink a violating line (to one argument, then character by character while it still fails in
    any way - with `preserve`: while it still fails in the same way) and sign it:
    style : special chars of the minimal text : position : symptom"""
    # 1. which single argument fails on its own?
    sym0 = sym
    fol_used = follower
    cand = None
    for i, (t, s) in enumerate(args):
        for f in ([""] if follower == "" else ["", follower]):
            _, sy = run_case([(t, s)], f)
            if sy and sy != "TIMEOUT" and (not preserve or sy == sym0):
                cand, fol_used, sym = (t, s), f, sy
                break
        if cand:
            break
    if cand is None:
        # needs company: keep the whole line, describe coarsely
        styles = "+".join(sorted({s for _, s in args}))
        return "C01:combination:%s:chars=%s:follower=%s:%s" % (
            styles, chars_of("".join(t for t, _ in args)), follower.strip()[:2] or "none", sym), render(args, follower, lead, sep)
    t, s = cand
    # 2. shrink the text
    changed = True
    while changed and len(t) > 0:
        changed = False
        for i in range(len(t)):
            t2 = t[:i] + t[i + 1:]
            if s not in styles_for(t2):
                continue
            _, sy = run_case([(t2, s)], fol_used)
            if sy and sy != "TIMEOUT" and (not preserve or sy == sym):
                t, sym, changed = t2, sy, True
                break
    pos = "any" if fol_used == "" else "before" + fol_used.strip().split(" ")[0]
    fam = esc_family(t) if s == "esc" else None
    if fam:
        return "C01:esc:%s:%s" % (fam, sym), render([(t, s)], fol_used)
    return "C01:%s:chars=%s:pos=%s:%s" % (s, chars_of(t), pos, sym), render([(t, s)], fol_used)


def esc_family(t):
    """Backslash-escaped characters keep no quote tag in cicada's tokens (only a *leading* \\$ or \\| and
    \\< \\> do), so later passes act on them.  Name the mechanism that a minimal failing text triggers."""
    # (a family applies only where its pass would really change this text - see common.esc_effects; the scratch directory
    # holds a, aa, b and .h)
    eff = common.esc_effects(t, ["a", "aa", "b", ".h"])
    if "backquote" in eff:
        return "escaped-backquote-pair-is-run-as-command-substitution"
    if "dollar" in eff:
        return "escaped-dollar-not-at-word-start-is-expanded"
    if "star" in eff:
        return "escaped-star-is-globbed"
    if "tilde" in eff:
        return "escaped-leading-tilde-is-expanded"
    if t == "&":
        return "escaped-ampersand-as-last-word-backgrounds"
    if "brace" in eff:
        return "escaped-braces-are-expanded"
    return None


_known_sigs = None


def _known():
    global _known_sigs
    if _known_sigs is None:
        _known_sigs = set(common.load_findings("C01")[0])
    return _known_sigs


def judge(case):
    args = [tuple(a) for a in case["args"]]
    follower, lead, sep = case["follower"], case.get("lead", ""), case.get("sep", " ")
    line, sym = run_case(args, follower, lead, sep)
    res = {"line": line}
    if sym is None:
        return ("held", None, res)
    if sym == "TIMEOUT":
        return ("inconclusive", "timeout without diagnosis", res)
    sig, minimal = classify(args, follower, lead, sep, sym)
    if sig in _known():
        # shrinking freely may have walked from this failure to a smaller line that fails for a reason already listed:
        # shrink again, keeping the way it fails, and sign that
        sig2, minimal2 = classify(args, follower, lead, sep, sym, preserve=True)
        # (when no single argument fails in the same way on its own the second shrink has nothing to say: the signature
        # of such a line would name whatever characters happen to stand in it)
        if sig2 != sig and not sig2.startswith("C01:combination:"):
            res["signature_when_shrunk_freely"] = sig
            sig, minimal = sig2, minimal2
    res["symptom"] = sym
    res["minimal_line"] = minimal
    return ("violated", sig, res)


def gen_cases(tier, seed):
    rng = common.rng_for(seed, "C01")
    cases = []
    thorough = tier == "thorough"

    def add(args, follower, cls, lead="", sep=" "):
        cases.append({"args": args, "follower": follower, "lead": lead, "sep": sep, "cls": cls})

    # exhaustive: all texts of length <= 2 (quick) / <= 3 (thorough), every style, as the only argument,
    # and in first / middle / last position next to plain words, last before each follower
    maxlen = 3 if thorough else 2
    texts = [""]
    for n in range(1, maxlen + 1):
        texts += ["".join(p) for p in itertools.product(ALPHA, repeat=n)]
    for t in texts:
        for s in styles_for(t):
            if len(t) <= 2:
                add([(t, s)], "", "exh-only")
                for f in FOLLOWERS[1:]:
                    add([(t, s)], f, "exh-last-before")
                if len(t) <= 1 or thorough:
                    add([(t, s), ("y", "sq")], "", "exh-first")
                    add([("x", "dq"), (t, s), ("y", "sq")], "", "exh-middle")
                    add([("x", "dq"), (t, s)], "", "exh-last")
            else:
                # length 3 (thorough): only + one rotating other position
                add([(t, s)], "", "exh-only")
                k = zlib.crc32(t.encode()) % 6
                if k < 4:
                    add([("x", "sq"), (t, s)], FOLLOWERS[1 + (zlib.crc32(t.encode()) // 6) % (len(FOLLOWERS) - 1)], "exh-last-before")
                elif k == 4:
                    add([(t, s), ("y", "dq")], "", "exh-first")
                else:
                    add([("x", "dq"), (t, s), ("y", "sq")], "", "exh-middle")
    n_exh = len(cases)
    # sampled length-3 texts in quick
    if not thorough:
        for _ in range(6000):
            t = "".join(rng.choice(ALPHA) for _ in range(3))
            st = styles_for(t)
            add([(t, rng.choice(st))], rng.choice(FOLLOWERS), "sample-len3")
    # random: 0..6 arguments, longer texts, mixed styles, spacing
    for _ in range(60000 if thorough else 5000):
        k = rng.randint(0, 6)
        args = []
        for _ in range(k):
            n = rng.choice([0, 1, 2, 3, 4, 6, 9, 12])
            # bias towards metacharacters but keep words in
            t = "".join(rng.choice(ALPHA if rng.random() < 0.7 else ["a", "b", "x", "1"]) for _ in range(n))
            st = styles_for(t)
            args.append((t, rng.choice(st)))
        add(args, rng.choice(FOLLOWERS), "random", lead=rng.choice(["", "", " ", "  "]), sep=rng.choice([" ", " ", "  ", "   "]))
    return cases, n_exh


def _work(case):
    try:
        return judge(case)
    except Exception as e:
        import traceback
        return ("inconclusive", "harness: %r %s" % (e, traceback.format_exc()[-500:]), {})


def inprocess_layer(rep, tier):
    """harness/src/c01.rs: every text of length <= 3 (quick) / <= 4 (thorough) over the 25 metacharacters + blank + `a`,
    in every style, alone and before a follower, through the real run_command_line with the exec interceptor: the monitor
    sees the planned command lines.  Returns the shrunk flagged (style, text, follower) triples."""
    harness, why_not = common.try_build_harness()
    if harness is None:
        rep.inconc("harness: the in-process harness did not build, in-process layer not run (%s)" % why_not)
        return []
    maxlen, allf = (4, 3) if tier == "thorough" else (3, 1)
    n = common.NPROC
    scratch = common.mkscratch("c01ip")
    jobs = []
    for i in range(n):
        d = os.path.join(scratch, "w%d" % i)
        os.makedirs(d)
        for name in ("a", "aa", "b", ".h"):
            open(os.path.join(d, name), "w").close()
        jobs.append(common.FileProc([harness, "c01", str(maxlen), str(i), str(n), d, str(allf)]))
    flagged = {}
    tot = {"texts": 0, "lines": 0, "failing_lines": 0}
    for p in jobs:
        o, _ = p.communicate()
        last = [l for l in o.decode("utf-8", "replace").split("\n") if l.startswith('{"maxlen"')]
        if p.returncode != 0 or not last:
            rep.inconc("harness: in-process shard exited %s without a summary" % p.returncode)
            continue
        d = json.loads(last[-1])
        for k in tot:
            tot[k] += d[k]
        for smp in d["samples"][:1]:
            if len(rep.samples) < 3:
                rep.samples.append({"line": smp, "class": "inprocess"})
        for m in d["minimal"]:
            key = (m["style"], m["text"], m["follower"])
            if key in flagged:
                flagged[key]["count"] += m["count"]
            else:
                flagged[key] = m
    common.rmtree(scratch)
    rep.extra["inprocess_layer"] = dict(tot, bound="|t|<=%d over 27 symbols x 3 styles x {alone, followers}" % maxlen,
                                        exhaustive=True, distinct_minimal_flagged=len(flagged))
    rep.evaluations += tot["lines"]
    rep.held += tot["lines"] - tot["failing_lines"]
    rep.distinct |= {("ip", i) for i in range(tot["lines"])}
    return list(flagged.values())


def run(tier, seed):
    common.build_helpers()
    cicada = common.build_cicada("debug")
    rep = Report("C01", tier, seed)
    rep.rule = ("argument texts over the 30-symbol alphabet (25 metacharacters, space, tab, a, e-acute, CJK): "
                "exhaustive for |t|<=2 (quick) / <=3 (thorough) x {single-quoted, double-quoted, backslash-escaped} "
                "x {only, first, middle, last, last before | ; && ||}; sampled |t|=3 in quick; random lines with "
                "0..6 arguments of length <=12, mixed styles and spacing.  All through `cicada -c`.  "
                "Non-trivial = at least one argument containing a non-alphanumeric character; distinct by line.")
    rep.assumptions = ["ESC style escapes every non-alphanumeric ASCII character and leaves letters, digits and "
                       "multi-byte characters alone", "decoy files a, aa, b, .h and a sentinel HOME make wrongly "
                       "applied expansions visible"]
    cases, n_exh = gen_cases(tier, seed)
    inproc = inprocess_layer(rep, tier)
    # every minimal line the in-process explorer flags is executed by the real binary; that observation decides
    for m in inproc:
        cases.append({"args": [(m["text"], m["style"])], "follower": m["follower"], "lead": "", "sep": " ",
                      "cls": "inprocess-flagged", "inprocess": m})
    results = common.pmap(_work, cases, init=_init, initargs=(cicada,), chunksize=16)
    for case, (verdict, sig, res) in zip(cases, results):
        nontriv = any(any(not c.isalnum() for c in t) or t == "" for t, _ in case["args"])
        rep.case(res.get("line", json.dumps(case)), nontriv,
                 sample={"line": res.get("line"), "class": case["cls"]} if case["cls"] == "random" else None)
        rep.count("cases_" + case["cls"])
        if verdict == "held" and case["cls"] == "inprocess-flagged":
            # planned differently in-process, yet the real program received the prescribed arguments: not a verdict
            rep.inconc("in-process plan differs (%s) but the real execution is as prescribed" % case["inprocess"]["symptom"], res)
        elif verdict == "held":
            rep.hold()
        elif verdict == "violated":
            rep.violate(sig, case, res)
        else:
            rep.inconc(sig, res)
    rep.extra["exhaustive_part_size"] = n_exh
    rep.extra["exhaustive"] = True
    rep.extra["exhaustive_bound"] = "|t|<=%d" % (3 if tier == "thorough" else 2)
    return rep.finish()


def replay(path):
    common.build_helpers()
    cicada = common.build_cicada("debug")
    _init(cicada)
    with open(path) as f:
        data = json.load(f)
    bad = 0
    for c in data["cases"]:
        v, sig, res = judge(c["case"])
        print(v, sig, json.dumps(res, default=str)[:600])
        if v == "violated":
            bad = 1
    if bad:
        print("VIOLATION property=C01 replay=%s" % path)
    return bad
