"""C07 the terminal belongs to the foreground job while it runs, else to the shell.

Monitor: a live pty session.  Ground truth comes from outside the shell: tcgetpgrp() on the pty
master, /proc/<pid>/stat (state, pgrp) of every vp_job helper (their pids are known from their
own start records), and the text the shell prints (`jobs` lines, `[id] gid  Done/Stopped`
notices).  A session model fed by /proc decides what must be true after every action."""
import json
import os
import re
import signal
import time

import common
import ptydrv
from common import Report, Sandbox
from ptydrv import proc_stat

_sb = None
ANSI = re.compile(rb"\x1b\[[0-9;?]*[A-Za-z]|\x01|\x02")
JOBLINE = re.compile(r"\[(\d+)\] (\d+)\s+(\S+)")


def _init(cicada):
    global _sb
    _sb = Sandbox(cicada, "c07")


def clean(b):
    return ANSI.sub(b"", b).decode("utf-8", "replace")


def ptydrv_lines(txt):
    if isinstance(txt, bytes):
        txt = txt.decode("utf-8", "replace")
    return re.sub(r"\x1b\[[0-9;?]*[A-Za-z]|\x01|\x02", "", txt).replace("\r", "\n").split("\n")


class Violation(Exception):
    def __init__(self, sig, detail=None):
        self.sig = sig
        self.detail = detail


class Inconclusive(Exception):
    pass


class Session:
    def __init__(self, sb, rng, handler):
        self.sb = sb
        self.rng = rng
        sb.reset_log()
        for f in os.listdir(sb.vpdir):
            os.unlink(os.path.join(sb.vpdir, f))
        extra = {"CICADA_ENABLE_SIG_HANDLER": "1"} if handler else {}
        self.handler = handler
        self.s = ptydrv.PtySession(sb, env_extra=extra)
        self.shell = self.s.pid
        self.jobs = {}        # gid -> {"pids": [...], "tags": [...], "id": None, "finished_reported": 0}
        self.fg = None
        self.ntag = 0
        self.trace = []
        self.samples = 0
        self.finished = {}    # gid -> notices seen
        self.text_since = ""

    # ----------------------------------------------------------- helpers
    def note(self, what):
        self.trace.append(what)

    def live_members(self, gid):
        out = []
        for p in self.jobs[gid]["pids"]:
            st = proc_stat(p)
            if st and st["state"] not in ("Z", "X"):
                out.append((p, st))
        return out

    def check_prompt_owner(self, after):
        """(a) the prompt has been printed: the terminal must be the shell's"""
        self.samples += 1
        tp = self.s.tpgid()
        if tp != self.shell:
            # stable? sample three times
            bad = 0
            for _ in range(3):
                time.sleep(0.05)
                if self.s.tpgid() != self.shell:
                    bad += 1
            if bad == 3:
                owner = "a-job" if tp in self.jobs else "other"
                raise Violation("C07:terminal-not-returned-to-shell-at-prompt:after=%s" % after, {"tpgid": tp, "shell": self.shell, "owner": owner})

    def wait_until(self, pred, timeout=3.0):
        end = time.time() + timeout
        while time.time() < end:
            if pred():
                return True
            time.sleep(0.03)
        return pred()

    def read_prompt(self, after, timeout=10.0):
        ok, out = self.s.wait_prompt(timeout)
        txt = clean(out)
        self.text_since += txt
        if not ok:
            if not self.s.alive():
                raise Violation("C07:shell-died:after=%s" % after)
            raise Inconclusive("prompt did not return after %s" % after)
        self.scan_notices(txt, after)
        self.check_prompt_owner(after)
        return txt

    def scan_notices(self, txt, after):
        for m in JOBLINE.finditer(txt):
            jid, gid, status = int(m.group(1)), int(m.group(2)), m.group(3)
            if gid in self.jobs and self.jobs[gid]["id"] is None:
                self.jobs[gid]["id"] = jid
            if status in ("Done", "Killed", "Killed:", "Terminated:", "Quit:", "Interrupt:") or status.rstrip(":") in ("Done", "Killed", "Terminated", "Quit", "Interrupt"):
                self.finished[gid] = self.finished.get(gid, 0) + 1
                if self.finished[gid] > 1:
                    raise Violation("C07:finished-job-reported-twice:after=%s" % after, {"gid": gid})

    def launch(self, bg):
        n = self.rng.randint(1, 3)
        tags = []
        for _ in range(n):
            self.ntag += 1
            tags.append("J%d" % self.ntag)
        line = " | ".join("vp_job %s 60" % t for t in tags) + (" &" if bg else "")
        self.note(("launch", "bg" if bg else "fg", n))
        self.s.send(line + "\r")
        # wait for all stages to log their start
        def started():
            recs = [x for x in self.sb.records() if x["name"] == "vp_job" and x["kind"] == "start" and x["argv"][1] in tags]
            return len(recs) == n
        if not self.wait_until(started, 8.0):
            if not self.s.alive():
                raise Violation("C07:shell-died:after=launch")
            raise Inconclusive("stages did not start")
        recs = {x["argv"][1]: x for x in self.sb.records() if x["name"] == "vp_job" and x["kind"] == "start" and x["argv"][1] in tags}
        pids = [recs[t]["pid"] for t in tags]
        gid = pids[0]
        self.jobs[gid] = {"pids": pids, "tags": tags, "id": None}
        # (c) one process group led by the first stage, distinct from the shell's and other jobs'
        def grouped():
            return all((proc_stat(p) or {}).get("pgrp") == gid for p in pids if proc_stat(p))
        if not self.wait_until(grouped, 2.0):
            raise Violation("C07:pipeline-members-not-in-one-group-led-by-first-stage:%s:n=%d" % ("bg" if bg else "fg", n),
                            {"pgrps": [(p, (proc_stat(p) or {}).get("pgrp")) for p in pids]})
        if gid == self.shell:
            raise Violation("C07:job-shares-the-shells-process-group")
        if bg:
            self.read_prompt("launch-bg")
            if self.s.tpgid() == gid:
                raise Violation("C07:background-job-owns-the-terminal")
        else:
            self.fg = gid
            # (b) the terminal is the job's while it runs
            if not self.wait_until(lambda: self.s.tpgid() == gid, 2.0):
                raise Violation("C07:foreground-job-does-not-own-the-terminal:n=%d" % n, {"tpgid": self.s.tpgid(), "gid": gid})
            self.samples += 1
        return gid

    def never_bg_owner(self):
        tp = self.s.tpgid()
        self.samples += 1
        for gid in self.jobs:
            if gid != self.fg and tp == gid and self.live_members(gid):
                raise Violation("C07:background-job-owns-the-terminal", {"gid": gid})

    def ctrl_z(self):
        gid = self.fg
        self.note(("ctrl-z",))
        self.s.send(b"\x1a")
        self.read_prompt("ctrl-z")
        self.fg = None
        live = self.live_members(gid)
        if not self.wait_until(lambda: all(st["state"] == "T" for _, st in self.live_members(gid)), 3.0):
            raise Violation("C07:ctrl-z-did-not-stop-the-whole-pipeline", {"states": [(p, st["state"]) for p, st in self.live_members(gid)]})

    def ctrl_c(self):
        gid = self.fg
        self.note(("ctrl-c",))
        self.s.send(b"\x03")
        self.read_prompt("ctrl-c")
        self.fg = None
        if not self.wait_until(lambda: not self.live_members(gid), 3.0):
            raise Violation("C07:ctrl-c-left-foreground-members-alive", {"live": [p for p, _ in self.live_members(gid)]})
        self.jobs[gid]["gone"] = True
        self.finished[gid] = self.finished.get(gid, 0)   # a foreground job ending needs no notice

    def stopped_jobs(self):
        return [g for g in self.jobs if g != self.fg and self.live_members(g) and all(st["state"] == "T" for _, st in self.live_members(g))]

    def partly_stopped_jobs(self):
        """jobs with at least one stopped live member (`bg` must resume the whole pipeline)"""
        return [g for g in self.jobs if g != self.fg and self.live_members(g) and any(st["state"] == "T" for _, st in self.live_members(g))]

    def running_bg_jobs(self):
        return [g for g in self.jobs if g != self.fg and self.live_members(g) and not all(st["state"] == "T" for _, st in self.live_members(g))]

    def live_jobs(self):
        return [g for g in self.jobs if self.live_members(g)]

    def job_ref(self, gid):
        jid = self.jobs[gid]["id"]
        if jid is None or len(self.live_jobs()) == 1 and self.rng.random() < 0.3:
            if len(self.live_jobs()) == 1:
                # the bare form means "the only job" only once the shell has noticed that the others are gone: a job whose
                # members died a moment ago (a pending SIGTERM delivered by the previous `bg`) may still be in its table,
                # and which of two entries a bare `bg` / `fg` takes is not defined.  One empty line lets the prompt poll.
                time.sleep(0.15)
                self.plain_line("empty")
                return ""
            self.jobs_cmd()
            jid = self.jobs[gid]["id"]
            if jid is None:
                raise Inconclusive("job id unknown")
        return " %d" % jid

    def do_fg(self, gid):
        ref = self.job_ref(gid)
        self.note(("fg", ref.strip() or "bare"))
        self.s.send("fg%s\r" % ref)
        self.fg = gid
        if not self.wait_until(lambda: self.s.tpgid() == gid, 3.0):
            if not self.live_members(gid):
                self.fg = None
                self.read_prompt("fg")
                return
            raise Violation("C07:fg-did-not-give-the-terminal-to-the-job", {"tpgid": self.s.tpgid(), "gid": gid})
        if not self.wait_until(lambda: all(st["state"] != "T" for _, st in self.live_members(gid)), 3.0):
            raise Violation("C07:fg-did-not-continue-the-whole-pipeline", {"states": [(p, st["state"]) for p, st in self.live_members(gid)]})

    def do_bg(self, gid):
        ref = self.job_ref(gid)
        self.note(("bg", ref.strip() or "bare"))
        self.s.send("bg%s\r" % ref)
        self.read_prompt("bg")
        if not self.wait_until(lambda: all(st["state"] != "T" for _, st in self.live_members(gid)), 3.0):
            raise Violation("C07:bg-did-not-continue-the-whole-pipeline", {"states": [(p, st["state"]) for p, st in self.live_members(gid)]})
        if self.s.tpgid() == gid:
            raise Violation("C07:background-job-owns-the-terminal")

    def signal_members(self, gid, sig, whole):
        members = [p for p, _ in self.live_members(gid)]
        if not members:
            return
        targets = members if whole else [self.rng.choice(members)]
        self.note(("signal", signal.Signals(sig).name, "all" if whole else "one", "fg" if gid == self.fg else "bg"))
        for p in targets:
            try:
                os.kill(p, sig)
            except OSError:
                pass
        want = {signal.SIGSTOP: lambda st: st is None or st["state"] in ("T", "Z", "X"),
                signal.SIGCONT: lambda st: st is None or st["state"] != "T",
                signal.SIGKILL: lambda st: st is None or st["state"] in ("Z", "X"),
                # (SIGTERM stays pending while the target is stopped)
                signal.SIGTERM: lambda st: st is None or st["state"] in ("Z", "X", "T")}[sig]
        if not self.wait_until(lambda: all(want(proc_stat(p)) for p in targets), 3.0):
            raise Inconclusive("signal had no effect")
        time.sleep(0.1)

    def stop_cont_one_fg(self):
        """one member of the running foreground pipeline is stopped and continued from outside while the others run,
        then the others finish: the shell has to go on waiting for the continued member (the job keeps the terminal)"""
        gid = self.fg
        j = self.jobs[gid]
        victim = self.rng.choice([p for p, _ in self.live_members(gid)])
        self.note(("stop-cont-one", "fg"))
        try:
            os.kill(victim, signal.SIGSTOP)
            if not self.wait_until(lambda: (proc_stat(victim) or {"state": "X"})["state"] in ("T", "Z", "X"), 2.0):
                raise Inconclusive("signal had no effect")
            time.sleep(0.15)
            if self.live_members(gid) and any(st["state"] != "T" for _, st in self.live_members(gid)) and self.s.tpgid() != gid:
                raise Violation("C07:shell-took-the-terminal-back-while-foreground-members-run", {"trace": self.trace[-5:]})
            os.kill(victim, signal.SIGCONT)
        except ProcessLookupError:
            raise Inconclusive("the member ended by itself meanwhile")
        if not self.wait_until(lambda: (proc_stat(victim) or {"state": "X"})["state"] != "T", 2.0):
            raise Inconclusive("signal had no effect")
        time.sleep(0.15)
        # every other member finishes now
        for t, p in zip(j["tags"], j["pids"]):
            if p != victim:
                open(os.path.join(self.sb.vpdir, "stop." + t), "w").close()
        others_gone = lambda: all(p == victim for p, _ in self.live_members(gid))
        if not self.wait_until(others_gone, 4.0):
            raise Inconclusive("members did not finish")
        time.sleep(0.4)
        if proc_stat(victim) and (proc_stat(victim) or {}).get("state") not in ("Z", "X") and self.s.tpgid() != gid:
            raise Violation("C07:shell-took-the-terminal-back-while-foreground-members-run:after-stop-and-continue-of-that-member",
                            {"trace": self.trace[-5:], "tpgid": self.s.tpgid(), "gid": gid})

    def fg_finished_job(self, gid):
        """a background job ends while the shell sits at its prompt (nothing has polled since); `fg` of that job has nothing
        to wait for and no group to hand the terminal to: the prompt comes straight back and the session goes on as before"""
        ref = self.job_ref(gid)          # (may ask `jobs` for the id: before the job ends)
        self.note(("fg-of-a-job-that-has-just-ended",))
        for t in self.jobs[gid]["tags"]:
            open(os.path.join(self.sb.vpdir, "stop." + t), "w").close()
        if not self.wait_until(lambda: not self.live_members(gid), 4.0):
            raise Inconclusive("job did not finish")
        time.sleep(0.15)
        if self.rng.random() < 0.5:
            # ... or while another command is in the foreground, `fg` following on the same line: the foreground wait has
            # collected the job's processes by then, so there is not even a process group left
            self.s.send("vp_argv before-fg ; fg%s\r" % ref)
        else:
            self.s.send("fg%s\r" % ref)
        self.read_prompt("fg-of-a-finished-job")
        # the failed hand-over must leave the shell as it was: the next foreground job can be stopped from the keyboard
        if len(self.live_jobs()) < 3:
            self.launch(bg=False)
            self.ctrl_z()

    def finish_job(self, gid):
        self.note(("finish", "fg" if gid == self.fg else "bg"))
        for t in self.jobs[gid]["tags"]:
            open(os.path.join(self.sb.vpdir, "stop." + t), "w").close()
        if not self.wait_until(lambda: not self.live_members(gid), 4.0):
            raise Inconclusive("job did not finish")
        time.sleep(0.1)

    def jobs_cmd(self):
        self.note(("jobs",))
        # ground truth first (nothing changes the children while we ask)
        truth = {}
        for gid in self.jobs:
            if gid == self.fg:
                continue
            live = self.live_members(gid)
            if live:
                truth[gid] = "Stopped" if all(st["state"] == "T" for _, st in live) else "Running"
        self.s.send("jobs\r")
        txt = self.read_prompt("jobs")
        listed = {}
        for m in JOBLINE.finditer(txt):
            jid, gid, status = int(m.group(1)), int(m.group(2)), m.group(3)
            if status in ("Running", "Stopped"):
                listed[gid] = (jid, status)
        # stable? the shell learns about changes by polling; ask a second time before judging
        if {g: s for g, (_, s) in listed.items()} != truth:
            self.s.send("jobs\r")
            txt = self.read_prompt("jobs")
            listed = {}
            for m in JOBLINE.finditer(txt):
                jid, gid, status = int(m.group(1)), int(m.group(2)), m.group(3)
                if status in ("Running", "Stopped"):
                    listed[gid] = (jid, status)
            truth2 = {}
            for gid in self.jobs:
                if gid == self.fg:
                    continue
                live = self.live_members(gid)
                if live:
                    truth2[gid] = "Stopped" if all(st["state"] == "T" for _, st in live) else "Running"
            if truth2 != truth:
                raise Inconclusive("children changed while listing")
        got = {g: s for g, (_, s) in listed.items()}
        if truth and not listed:
            body = [l for l in ptydrv_lines(txt) if l.strip() and l.strip() != "jobs" and "vpP>" not in l]
            if body:
                # something was printed but none of it reads as `[id] gid Running|Stopped ...`: the listing format is
                # not the one this monitor knows - no verdict rather than "misses a live job"
                raise Inconclusive("jobs output not recognised: %r" % body[:2])
        if got != truth:
            extra = sorted(set(got) - set(truth))
            missing = sorted(set(truth) - set(got))
            if extra:
                raise Violation("C07:jobs-lists-a-job-with-no-live-process", {"listed": listed, "truth": truth, "trace": self.trace[-6:]})
            if missing:
                raise Violation("C07:jobs-misses-a-live-job", {"listed": listed, "truth": truth, "trace": self.trace[-6:]})
            wrong = [g for g in truth if got[g] != truth[g]]
            raise Violation("C07:jobs-shows-wrong-state:shown=%s:true=%s" % (got[wrong[0]], truth[wrong[0]]),
                            {"listed": listed, "truth": truth, "trace": self.trace[-6:]})
        ids = [j for j, _ in listed.values()]
        if len(ids) != len(set(ids)):
            raise Violation("C07:duplicate-job-ids", {"listed": listed})
        for g, (jid, _) in listed.items():
            self.jobs[g]["id"] = jid

    def plain_line(self, what):
        line = {"empty": "", "notfound": "vp_nonexistent_cmd", "failing": "vp_status 3", "ok": "vp_argv ok"}[what]
        self.note(("line", what))
        self.s.send(line + "\r")
        self.read_prompt(what)

    # ------------------------------------------------------------- driver
    def run(self, nactions):
        self.read_prompt("startup", 15)
        for _ in range(nactions):
            time.sleep(self.rng.choice([0, 0, 0.02, 0.08, 0.15]))
            self.never_bg_owner()
            if self.fg is not None:
                r = self.rng.random()
                if not self.live_members(self.fg):
                    self.read_prompt("foreground-job-ended")
                    self.fg = None
                elif len(self.live_members(self.fg)) > 1 and self.rng.random() < 0.15:
                    self.stop_cont_one_fg()
                elif r < 0.4:
                    self.ctrl_z()
                elif r < 0.6:
                    self.ctrl_c()
                elif r < 0.75:
                    gid = self.fg
                    self.finish_job(gid)
                    self.read_prompt("foreground-job-ended")
                    self.fg = None
                elif r < 0.88 and len(self.jobs[self.fg]["pids"]) > 1:
                    self.signal_members(self.fg, signal.SIGKILL, False)
                    # the job still has live members: the shell must keep waiting
                    if self.live_members(self.fg):
                        time.sleep(0.3)
                        if self.s.tpgid() != self.fg and self.live_members(self.fg):
                            raise Violation("C07:shell-took-the-terminal-back-while-foreground-members-run", {"trace": self.trace[-5:]})
                else:
                    gid = self.fg
                    self.signal_members(gid, signal.SIGKILL, True)
                    self.read_prompt("foreground-job-killed")
                    self.fg = None
                continue
            live = self.live_jobs()
            r = self.rng.random()
            if r < 0.22 and len(live) < 3:
                self.launch(bg=False)
            elif r < 0.40 and len(live) < 3:
                self.launch(bg=True)
            elif r < 0.52:
                self.jobs_cmd()
            elif r < 0.62 and self.partly_stopped_jobs():
                self.do_bg(self.rng.choice(self.partly_stopped_jobs()))
            elif r < 0.66 and [g for g in self.running_bg_jobs() if len(self.live_members(g)) > 1]:
                # one member of a running pipeline is stopped from outside; `bg` must resume the whole pipeline
                gid = self.rng.choice([g for g in self.running_bg_jobs() if len(self.live_members(g)) > 1])
                self.signal_members(gid, signal.SIGSTOP, False)
                if self.rng.random() < 0.6:
                    self.plain_line("empty")
                if self.rng.random() < 0.3:
                    self.jobs_cmd()
                # (... and so must `fg`: the job is listed as running, yet one of its members is not)
                if self.rng.random() < 0.5:
                    self.do_fg(gid)
                else:
                    self.do_bg(gid)
            elif r < 0.69 and [g for g in self.stopped_jobs() if len(self.live_members(g)) > 1]:
                # a fully stopped pipeline: one member is continued from outside and then stopped again (or killed);
                # all live members are stopped once more, and that is what `jobs` must say
                gid = self.rng.choice([g for g in self.stopped_jobs() if len(self.live_members(g)) > 1])
                pid = self.rng.choice([p for p, _ in self.live_members(gid)])
                self.note(("cont-then-stop-one", "bg"))
                try:
                    os.kill(pid, signal.SIGCONT)
                    self.wait_until(lambda: (proc_stat(pid) or {"state": "X"})["state"] != "T", 2.0)
                    self.plain_line("empty")
                    os.kill(pid, self.rng.choice([signal.SIGSTOP, signal.SIGSTOP, signal.SIGKILL]))
                except ProcessLookupError:
                    raise Inconclusive("the member ended by itself meanwhile")
                self.wait_until(lambda: (proc_stat(pid) or {"state": "X"})["state"] in ("T", "Z", "X"), 2.0)
                time.sleep(0.1)
                self.plain_line("empty")
                self.jobs_cmd()
            elif r < 0.72 and live:
                self.do_fg(self.rng.choice(live))
            elif r < 0.84 and live:
                gid = self.rng.choice(live)
                sig = self.rng.choice([signal.SIGSTOP, signal.SIGCONT, signal.SIGKILL, signal.SIGTERM])
                self.signal_members(gid, sig, self.rng.random() < 0.6)
                # the change is first noticed by an empty line (the prompt's own poll) - or by `jobs` itself, whose
                # silent poll must record it just the same
                if self.rng.random() < 0.6:
                    self.plain_line("empty")
                else:
                    self.jobs_cmd()
            elif r < 0.90 and self.running_bg_jobs():
                if self.rng.random() < 0.3:
                    self.fg_finished_job(self.rng.choice(self.running_bg_jobs()))
                else:
                    self.finish_job(self.rng.choice(self.running_bg_jobs()))
                    self.plain_line("empty")
            else:
                self.plain_line(self.rng.choice(["empty", "notfound", "failing", "ok"]))
        # wind down: bring a foreground job back, then a final listing and the once-only notice rule
        if self.fg is not None and self.live_members(self.fg):
            self.ctrl_c()
        elif self.fg is not None:
            self.read_prompt("foreground-job-ended")
            self.fg = None
        self.jobs_cmd()
        # (f) every finished background job was reported exactly once by now (two prompts after it ended)
        self.plain_line("empty")
        for gid, j in self.jobs.items():
            if j.get("gone"):
                continue
            if not self.live_members(gid) and j.get("was_bg_or_stopped", True):
                pass


def judge(case):
    sb = _sb
    rng = common.rng_for(case["seed"], "c07")
    ses = Session(sb, rng, case["handler"])
    res = {"handler": case["handler"]}
    try:
        ses.run(case["nactions"])
        verdict = ("held", None)
    except Violation as v:
        res["detail"] = v.detail
        # the optional SIGCHLD-handler configuration parks events in maps and applies them later
        sig = v.sig + (":config=sig-handler" if case["handler"] and v.sig.startswith("C07:jobs-") else "")
        verdict = ("violated", sig)
    except Inconclusive as e:
        verdict = ("inconclusive", str(e))
    finally:
        res["trace"] = ses.trace
        res["samples"] = ses.samples
        ses.s.close()
        # make sure no helper survives
        for x in sb.records():
            if x["name"] == "vp_job" and x["kind"] == "start":
                try:
                    os.kill(x["pid"], signal.SIGKILL)
                except OSError:
                    pass
    return (verdict[0], verdict[1], res)


def _work(case):
    try:
        return judge(case)
    except Exception as e:
        import traceback
        return ("inconclusive", "harness: %r %s" % (e, traceback.format_exc()[-700:]), {})


def run(tier, seed):
    common.build_helpers()
    cicada = common.build_cicada("debug")
    rep = Report("C07", tier, seed)
    rep.rule = ("random interactive pty sessions of 5..25 actions from {launch fg/bg pipeline of 1..3 stages, Ctrl-Z, Ctrl-C, "
                "fg [id], bg [id], external STOP/CONT/KILL/TERM of one member or the whole group, let a job finish, jobs, "
                "empty / not-found / failing line}, up to 3 jobs alive, random pauses; 3/4 default configuration, 1/4 with "
                "CICADA_ENABLE_SIG_HANDLER=1.  Non-trivial = at least one job launched; distinct by seed.")
    rep.assumptions = ["pids of helpers come from their own start records; states from /proc/<pid>/stat",
                       "asynchronous effects are awaited with bounded polls whose expiry is inconclusive",
                       "`jobs` is asked twice before its answer is judged against /proc"]
    rng = common.rng_for(seed, "C07")
    n = 800 if tier == "thorough" else 224
    cases = [{"seed": rng.randrange(1 << 30), "nactions": rng.randint(5, 25), "handler": rng.random() < 0.25} for _ in range(n)]
    results = common.pmap(_work, cases, init=_init, initargs=(cicada,), chunksize=1)
    acts = {}
    samples = 0
    for case, (verdict, sig, res) in zip(cases, results):
        tr = res.get("trace", [])
        rep.case(json.dumps(case), any(a[0] == "launch" for a in tr), sample={"trace": tr[:10], "handler": case["handler"]})
        for a in tr:
            k = a[0] + ("-" + a[1] if a[0] in ("launch", "signal", "line") else "")
            acts[k] = acts.get(k, 0) + 1
        samples += res.get("samples", 0)
        if verdict == "held":
            rep.hold()
        elif verdict == "violated":
            rep.violate(sig, case, res)
        else:
            rep.inconc(sig, res)
    rep.extra["actions_performed"] = acts
    rep.extra["tcgetpgrp_samples"] = samples
    return rep.finish()


def replay(path):
    common.build_helpers()
    cicada = common.build_cicada("debug")
    _init(cicada)
    with open(path) as f:
        data = json.load(f)
    bad = 0
    for c in data["cases"]:
        v, sig, res = _work(c["case"])
        print(v, sig, json.dumps(res, default=str)[:1500])
        if v == "violated":
            bad = 1
    if bad:
        print("VIOLATION property=C07 replay=%s" % path)
    return bad
