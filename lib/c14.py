"""C14 scripts execute exactly the command sequence their block structure prescribes.

Monitor: every command of a generated script is an observer writing a marker (vp_status), every
condition is the observer vp_cond answering from a pre-programmed status sequence and logging the
index it used, `for` bodies log the bound value.  The ordered event log is compared with the
trace of a reference interpreter run on the same abstract syntax tree with the same sequences.
Negatives (unbalanced keywords) must produce a diagnostic instead of silently dropping the tail."""
import json
import zlib
import os

import common
from common import Report, Sandbox, run_cicada, crashed

_sb = None


def _init(cicada):
    global _sb
    _sb = Sandbox(cicada, "c14")


# ------------------------------------------------------------------ AST

class Gen:
    def __init__(self, rng):
        self.rng = rng
        self.nm = 0
        self.nc = 0
        self.nv = 0
        self.nodes = 0
        self.conds = {}

    def cmd(self):
        self.nm += 1
        self.nodes += 1
        return ("cmd", "M%d" % self.nm, self.rng.choice([0, 0, 1, 3]))

    def cond(self, loop=False):
        self.nc += 1
        cid = "K%d" % self.nc
        n = self.rng.randint(1, 4)
        if loop:
            seq = [0] * self.rng.randint(0, 3) + [1]
            # extra entries in case the loop is entered again (nested)
            seq = seq + [self.rng.choice([0, 1]) for _ in range(3)] + [1]
        else:
            seq = [self.rng.choice([0, 1]) for _ in range(n)]
        self.conds[cid] = seq
        return cid

    def body(self, depth, in_loop, maxn=4):
        n = self.rng.randint(1, maxn)
        out = []
        for _ in range(n):
            if self.nodes > 30:
                break
            out.append(self.stmt(depth, in_loop))
        if not out:
            out.append(self.cmd())
        return out

    def stmt(self, depth, in_loop):
        r = self.rng.random()
        self.nodes += 1
        if depth <= 0 or r < 0.45:
            if in_loop and r < 0.08:
                return ("break",)
            if in_loop and r < 0.16:
                return ("continue",)
            return self.cmd()
        if r < 0.70:
            arms = [(self.cond(), self.body(depth - 1, in_loop, 3))]
            for _ in range(self.rng.choice([0, 0, 1, 2, 3])):
                arms.append((self.cond(), self.body(depth - 1, in_loop, 3)))
            els = self.body(depth - 1, in_loop, 3) if self.rng.random() < 0.5 else None
            return ("if", arms, els)
        if r < 0.85:
            self.nv += 1
            words = ["w%d" % i for i in range(self.rng.randint(0, 4))]
            return ("for", "v%d" % self.nv, words, self.body(depth - 1, True, 3))
        return ("while", self.cond(loop=True), self.body(depth - 1, True, 3))


# ------------------------------------------------------------ reference

class Brk(Exception):
    pass


class Cont(Exception):
    pass


class Interp:
    def __init__(self, conds, limit=400):
        self.conds = conds
        self.cur = {k: 0 for k in conds}
        self.trace = []
        self.status = 0
        self.limit = limit

    def test(self, cid):
        i = self.cur[cid]
        self.cur[cid] = i + 1
        seq = self.conds[cid]
        code = seq[i] if i < len(seq) else 1
        self.trace.append(("cond", cid, i, code))
        self.status = code
        if len(self.trace) > self.limit:
            raise RuntimeError("trace too long")
        return code == 0

    def run_body(self, body):
        for st in body:
            self.run(st)

    def run(self, st):
        k = st[0]
        if k == "cmd":
            self.trace.append(("cmd", st[1]))
            self.status = st[2]
        elif k == "break":
            raise Brk()
        elif k == "continue":
            raise Cont()
        elif k == "if":
            for cid, body in st[1]:
                if self.test(cid):
                    self.run_body(body)
                    return
            if st[2] is not None:
                self.run_body(st[2])
        elif k == "for":
            for w in st[2]:
                try:
                    self.trace.append(("for", st[1], w))
                    self.status = 0
                    self.run_body(st[3])
                except Cont:
                    continue
                except Brk:
                    break
        elif k == "while":
            while self.test(st[1]):
                try:
                    self.run_body(st[2])
                except Cont:
                    continue
                except Brk:
                    break


# --------------------------------------------------------------- render

def render(ast, style, rng):
    lines = []

    def ind(d):
        return style["indent"] * d

    def blank():
        if style["blanks"] and rng.random() < 0.15:
            lines.append("")

    def body(b, d):
        for st in b:
            emit(st, d)

    def emit(st, d):
        k = st[0]
        blank()
        if k == "cmd":
            lines.append(ind(d) + "vp_status %d %s" % (st[2], st[1]))
        elif k == "break":
            lines.append(ind(d) + "break")
        elif k == "continue":
            lines.append(ind(d) + "continue")
        elif k == "if":
            for i, (cid, b) in enumerate(st[1]):
                head = ("if " if i == 0 else "else if ") + "vp_cond %s" % cid
                lines.append(ind(d) + head + ("; then" if style["then"] else ""))
                body(b, d + 1)
            if st[2] is not None:
                lines.append(ind(d) + "else")
                body(st[2], d + 1)
            lines.append(ind(d) + "fi")
        elif k == "for":
            # (a list of no words: written as nothing at all, or as an unset variable)
            words = " ".join(st[2]) if st[2] else ("$NOPE_EMPTY" if zlib.crc32(st[1].encode()) % 2 else "")
            lines.append(ind(d) + ("for %s in %s" % (st[1], words)).rstrip(" ") + ("; do" if style["then"] else ""))
            lines.append(ind(d + 1) + "vp_argv FOR %s $%s" % (st[1], st[1]))
            body(st[3], d + 1)
            lines.append(ind(d) + "done")
        elif k == "while":
            lines.append(ind(d) + "while vp_cond %s" % st[1] + ("; do" if style["then"] else ""))
            body(st[2], d + 1)
            lines.append(ind(d) + "done")

    body(ast, 0)
    return lines


def observe(text, conds):
    sb = _sb
    sb.reset_log()
    for f in os.listdir(sb.vpdir):
        os.unlink(os.path.join(sb.vpdir, f))
    for cid, seq in conds.items():
        with open(os.path.join(sb.vpdir, "cond." + cid), "w") as f:
            f.write(" ".join(str(x) for x in seq))
    path = os.path.join(sb.root, "t.sh")
    with open(path, "w") as f:
        f.write(text)
    r = run_cicada(sb, [path], timeout=60.0)
    trace = []
    for x in sb.records():
        if x["kind"] != "start":
            continue
        if x["name"] == "vp_status":
            trace.append(("cmd", x["argv"][2]))
        elif x["name"] == "vp_cond":
            trace.append(("cond", x["argv"][1], x["idx"], x["code"]))
        elif x["name"] == "vp_argv" and x["argv"][1:2] == ["FOR"]:
            trace.append(("for", x["argv"][2], x["argv"][3] if len(x["argv"]) > 3 else ""))
    return r, trace


def first_divergence(exp, got):
    for i, (a, b) in enumerate(zip(exp, got)):
        if tuple(a) != tuple(b):
            return i
    return min(len(exp), len(got))


def enclosing_kinds(ast):
    kinds = set()

    def walk(b):
        for st in b:
            kinds.add(st[0])
            if st[0] == "if":
                for _, bb in st[1]:
                    walk(bb)
                if st[2]:
                    walk(st[2])
                if len(st[1]) > 1:
                    kinds.add("elseif")
                if st[2]:
                    kinds.add("else")
            elif st[0] in ("for", "while"):
                walk(st[3] if st[0] == "for" else st[2])
    walk(ast)
    return kinds


def judge(case):
    ast, conds, style = case["ast"], case["conds"], case["style"]
    rng = common.rng_for(case["rseed"], "render")
    lines = render(ast, style, rng)
    text = "\n".join(lines) + ("\n" if style["eol"] else "")
    res = {"script": text}
    if case.get("negative"):
        kind = case["negative"]
        lines2 = list(lines)
        idxs = [i for i, l in enumerate(lines2) if l.strip() in ("fi", "done")]
        heads = [i for i, l in enumerate(lines2) if l.strip().startswith(("if ", "for ", "while "))]
        if kind == "delete" and idxs:
            del lines2[idxs[case["rseed"] % len(idxs)]]
        elif kind == "add":
            pos = case["rseed"] % (len(lines2) + 1)
            lines2.insert(pos, ["fi", "done"][case["rseed"] % 2])
        elif kind == "truncate" and heads:
            h = heads[case["rseed"] % len(heads)]
            lines2 = lines2[:h + 1]
        else:
            return ("held", None, res)
        lines2.append("vp_status 0 TAIL")
        text = "\n".join(lines2) + "\n"
        res["script"] = text
        r, trace = observe(text, conds)
        res["stderr"] = r.err.decode("utf-8", "replace")[-300:]
        if r.timed_out:
            return ("inconclusive", "timeout", res)
        if crashed(r):
            return ("violated", "C14:negative:%s:shell-crash" % kind, res)
        diagnosed = len(r.err.strip()) > 0
        if not diagnosed:
            ran_tail = ("cmd", "TAIL") in trace
            return ("violated", "C14:negative:%s:no-diagnostic:%s" % (
                kind, "tail-ran" if ran_tail else "remainder-silently-skipped"), res)
        return ("held", None, res)
    it = Interp(conds)
    try:
        it.run_body(ast)
    except RuntimeError:
        return ("held", None, res)       # degenerate (too long): not judged
    exp = [tuple(x) for x in it.trace]
    r, got = observe(text, conds)
    res["expected_trace"], res["observed_trace"] = exp[:60], got[:60]
    res["stderr"] = r.err.decode("utf-8", "replace")[-300:]
    if r.timed_out:
        if r.diag and r.diag["kind"] == "spin":
            return ("violated", "C14:script-does-not-terminate", res)
        return ("inconclusive", "timeout", res)
    if crashed(r):
        return ("violated", "C14:shell-crash", res)
    spelling = "then-do-spelling" if style["then"] else "newline-spelling"
    if got != exp:
        i = first_divergence(exp, got)
        want = exp[i][0] if i < len(exp) else "end"
        have = got[i][0] if i < len(got) else "end"
        kinds = enclosing_kinds(ast)
        ctx = "+".join(sorted(k for k in kinds if k in ("break", "continue", "elseif", "else", "for", "while")))
        res["divergence_at"] = i
        return ("violated", "C14:trace-diverges:%s:expected-%s-observed-%s:constructs=%s" % (spelling, want, have, ctx or "if"), res)
    if b"syntax error" in r.err:
        return ("violated", "C14:syntax-error-on-well-formed-script:%s" % spelling, res)
    # the exit status is C15's subject; here it is only compared when the last thing executed was a
    # plain command (what a failed condition leaves behind is not specified by C14)
    if exp and exp[-1][0] in ("cmd", "for") and r.rc != it.status:
        res["rc"], res["expected_rc"] = r.rc, it.status
        last = exp[-1][0] if exp else "none"
        return ("violated", "C14:exit-status:last-executed=%s" % last, res)
    return ("held", None, res)


def gen_case(rng, k):
    g = Gen(rng)
    ast = g.body(rng.randint(1, 4), False, 5)
    style = {"then": rng.random() < 0.5, "indent": rng.choice(["", "  ", "    ", "\t"]), "blanks": rng.random() < 0.5,
             "eol": rng.random() < 0.8}
    case = {"ast": ast, "conds": g.conds, "style": style, "rseed": rng.randrange(1 << 30)}
    if rng.random() < 0.12:
        case["negative"] = rng.choice(["delete", "add", "truncate"])
    return case


def _work(case):
    try:
        return judge(case)
    except Exception as e:
        import traceback
        return ("inconclusive", "harness: %r %s" % (e, traceback.format_exc()[-500:]), {})


def _norm(case):
    """json round trip turns tuples into lists; normalise for replay"""
    def t(x):
        if isinstance(x, list):
            return tuple(t(y) for y in x) if x and isinstance(x[0], str) and x[0] in ("cmd", "if", "for", "while", "break", "continue") else [t(y) for y in x]
        return x
    return case


def run(tier, seed):
    common.build_helpers()
    cicada = common.build_cicada("debug")
    rep = Report("C14", tier, seed)
    rep.rule = ("random ASTs (depth<=4, <=30 nodes) over {command, if with 0..3 else-if arms and optional else, for over "
                "0..4 words, while with a scripted condition, break, continue}, rendered in the newline spelling and the "
                "`; then`/`; do` spelling with varied indentation, blank lines and with/without final newline; 12% are "
                "turned into negatives (a fi/done deleted or added, truncated after a head) followed by a TAIL marker.  "
                "Non-trivial = contains at least one block; distinct by script text + condition sequences.")
    rep.assumptions = ["vp_cond consumes one entry of its pre-programmed sequence per evaluation (flock'ed cursor); an "
                       "exhausted sequence answers 1 so every loop ends", "a negative is 'diagnosed' when anything is written to stderr"]
    rng = common.rng_for(seed, "C14")
    n = 30000 if tier == "thorough" else 4000
    cases = [gen_case(rng, k) for k in range(n)]
    results = common.pmap(_work, cases, init=_init, initargs=(cicada,), chunksize=4)
    kinds = {}
    for case, (verdict, sig, res) in zip(cases, results):
        ks = enclosing_kinds(case["ast"])
        rep.case(res.get("script", json.dumps(case, default=str)) + json.dumps(case["conds"], sort_keys=True), bool(ks - {"cmd"}),
                 sample={"script": res.get("script"), "expected_trace": res.get("expected_trace")})
        rep.count("trace_events_compared", len(res.get("observed_trace", [])))
        rep.count("negative" if case.get("negative") else "positive")
        for k in ks:
            kinds[k] = kinds.get(k, 0) + 1
        if verdict == "held":
            rep.hold()
        elif verdict == "violated":
            rep.violate(sig, case, res)
        else:
            rep.inconc(sig, res)
    rep.extra["constructs_exercised"] = kinds
    return rep.finish()


def _retuple(x):
    if isinstance(x, list):
        if x and isinstance(x[0], str) and x[0] in ("cmd", "if", "for", "while", "break", "continue"):
            return tuple(_retuple(y) for y in x)
        return [_retuple(y) for y in x]
    return x


def replay(path):
    common.build_helpers()
    cicada = common.build_cicada("debug")
    _init(cicada)
    with open(path) as f:
        data = json.load(f)
    bad = 0
    for c in data["cases"]:
        case = c["case"]
        case["ast"] = _retuple(case["ast"])
        v, sig, res = judge(case)
        print(v, sig, json.dumps(res, default=str)[:1200])
        if v == "violated":
            bad = 1
    if bad:
        print("VIOLATION property=C14 replay=%s" % path)
    return bad
