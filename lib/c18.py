"""C18 history stores every submitted line verbatim, durably and injection-free.

Monitor: the database file is read after every step with python's sqlite3 (an independent
client); listings are produced by a *fresh* cicada process.  Workload: add / list / search /
--pwd / delete issued by many short-lived `cicada -c` processes from working directories whose
names contain quote, percent, underscore, backslash, semicolon, `--`, `)` and multi-byte
characters; a phase with 8 concurrent adders; pty sessions typing lines with leading blanks and
immediate repeats.  Oracle: a row model (one row per accepted submission, text unchanged,
submission order, deletes remove exactly the named rows, searches never change anything)."""
import json
import os
import sqlite3
import subprocess
import time

import common
import ptydrv
from common import Report, Sandbox, run_cicada, crashed

_sb = None
SPECIALS = ["'", '"', "%", "_", "\\", ";", "--", ")", "é中", "''", "' OR 1=1 --", "x'); DROP TABLE cicada_history; --"]
WORDS = ["ls", "echo", "git status", "make -j4", "cat file", "Run", "ABC", "abc"]
DIRNAMES = ["plain", "d'q", 'd"q', "p%c", "u_s", "b\\s", "s;c", "d--d", "p)r", "é中", "sp ace", "q''q"]


def _init(cicada):
    global _sb
    _sb = Sandbox(cicada, "c18")


def rows(db):
    for attempt in range(20):
        try:
            con = sqlite3.connect(db, timeout=5)
            try:
                return con.execute("SELECT rowid, inp, tsb, info FROM cicada_history ORDER BY tsb, rowid").fetchall()
            finally:
                con.close()
        except sqlite3.OperationalError:
            time.sleep(0.1)
    raise common.InfraError("cannot read history db")


def gen_text(rng):
    parts = [rng.choice(WORDS)]
    for _ in range(rng.randint(0, 3)):
        parts.append(rng.choice(SPECIALS + WORDS))
    return " ".join(parts).strip()


def feature(text):
    f = sorted({s for s in ["'", '"', "%", "_", "\\", ";", "--", ")"] if s in text})
    if any(ord(c) > 127 for c in text):
        f.append("non-ascii")
    if " " in text:
        f.append("blank")
    return "+".join(f) or "plain"


def create_db(sb):
    s = ptydrv.PtySession(sb)
    ok, _ = s.wait_prompt(15)
    s.close()
    return ok and os.path.exists(os.path.join(sb.home, "history.sqlite"))


def judge(case):
    sb = _sb
    sb.clean_work()
    rng = common.rng_for(case["seed"], "c18case")
    db = os.path.join(sb.home, "history.sqlite")
    for f in (db, db + "-journal", db + "-wal"):
        if os.path.exists(f):
            os.unlink(f)
    if not create_db(sb):
        return ("inconclusive", "could not create the history db through an interactive session", {})
    dirs = {}
    for d in DIRNAMES:
        p = os.path.join(os.path.realpath(sb.work), d)
        os.makedirs(p, exist_ok=True)
        dirs[d] = p
    model = []          # list of dict(text, ts, dir)
    ts = 1000.0
    res = {"steps": []}
    nsteps = case["nsteps"]

    def listing(cwd, extra_args="", pattern=None):
        env = {"PAT": pattern} if pattern is not None else {}
        line = "history -a -n -l 100000 %s" % extra_args + (' "$PAT"' if pattern is not None else "")
        r = run_cicada(sb, ["-c", line], cwd=cwd, env_extra=env, timeout=30)
        return r, r.out.decode("utf-8", "replace").split("\n")[:-1] if r.out else []

    def check_rows(step, what):
        got = [(r[1], r[3]) for r in rows(db) if r[1] not in ("",)]
        want = [(m["text"], "dir:%s|" % m["dir"]) for m in model]
        if [g[0] for g in got] != [w[0] for w in want]:
            return "rows-differ-from-model"
        if got != want:
            return "recorded-directory-differs"
        return None

    for k in range(nsteps):
        op = rng.choice(["add", "add", "add", "list", "search", "pwd", "delete", "add-concurrent"] if k > 0 else ["add"])
        dname = rng.choice(DIRNAMES)
        cwd = dirs[dname]
        step = {"op": op, "dir": dname}
        res["steps"].append(step)
        if op == "add":
            text = gen_text(rng)
            ts += rng.choice([1, 2, 10])
            step["text"] = text
            r = run_cicada(sb, ["-c", 'history add -t %s "$TEXT"' % ts], cwd=cwd, env_extra={"TEXT": text}, timeout=30)
            step["stderr"] = r.err.decode("utf-8", "replace")[-200:]
            if crashed(r):
                return ("violated", "C18:add:shell-crash:text=%s:dir=%s" % (feature(text), feature(dname)), res)
            model.append({"text": text, "ts": ts, "dir": cwd})
            bad = check_rows(step, "add")
            if bad:
                res["rows"] = [r[1] for r in rows(db)][-5:]
                # attribute: does the same text work from a plain directory?
                why = "dir=%s" % feature(dname) if feature(dname) != "plain" and feature(dname) != "blank" else "text=%s" % feature(text)
                if r.err:
                    return ("violated", "C18:add:recording-failed:%s" % why, res)
                return ("violated", "C18:add:%s:%s" % (bad, why), res)
        elif op == "add-concurrent":
            n = 8
            procs = []
            texts = []
            for i in range(n):
                t = "conc %d %s" % (i, gen_text(rng))
                ts += 1
                texts.append((t, ts, cwd))
                env = sb.env({"TEXT": t})
                procs.append(subprocess.Popen([sb.cicada, "-c", 'history add -t %s "$TEXT"' % ts], cwd=cwd, env=env,
                                              stdin=subprocess.DEVNULL, stdout=subprocess.PIPE, stderr=subprocess.PIPE))
            errs = b""
            for p in procs:
                o, e = p.communicate(timeout=60)
                errs += e
            step["stderr"] = errs.decode("utf-8", "replace")[-300:]
            for t, tt, c in texts:
                model.append({"text": t, "ts": tt, "dir": c})
            bad = check_rows(step, "add-concurrent")
            if bad:
                got = {r[1] for r in rows(db)}
                lost = [t for t, _, _ in texts if t not in got]
                res["lost"] = lost
                return ("violated", "C18:add-concurrent:%s:%s" % ("submissions-lost" if lost else bad,
                                                                  "dir=%s" % feature(dname)), res)
        elif op == "list":
            r, lines = listing(cwd)
            if crashed(r) or r.err.strip():
                step["stderr"] = r.err.decode("utf-8", "replace")[-200:]
                return ("violated", "C18:list:error:dir=%s" % feature(dname), res)
            want = "\n".join(m["text"] for m in model).split("\n") if model else []
            if lines != want:
                res["listing"], res["want"] = lines[-6:], want[-6:]
                return ("violated", "C18:list:order-or-content-differs", res)
        elif op == "search":
            pat = rng.choice(SPECIALS + WORDS + ["st", "a", "ABC"])
            step["pattern"] = pat
            before = rows(db)
            r, lines = listing(cwd, pattern=pat)
            after = rows(db)
            if before != after:
                return ("violated", "C18:search:rows-changed:pattern=%s" % feature(pat), res)
            if crashed(r) or r.err.strip():
                step["stderr"] = r.err.decode("utf-8", "replace")[-200:]
                return ("violated", "C18:search:error:pattern=%s" % feature(pat), res)
            # (a pattern that looks like an option is consumed by the option parser: not judged for exactness)
            if "%" not in pat and "_" not in pat and all(ord(c) < 128 for c in pat) and not pat.startswith("-"):
                want = "\n".join(m["text"] for m in model if pat.lower() in m["text"].lower())
                want = want.split("\n") if want else []
                if lines != want:
                    res["listing"], res["want"] = lines[-6:], want[-6:]
                    return ("violated", "C18:search:wrong-rows:pattern=%s" % feature(pat), res)
        elif op == "pwd":
            before = rows(db)
            r, lines = listing(cwd, extra_args="--pwd")
            if before != rows(db):
                return ("violated", "C18:pwd-listing:rows-changed:dir=%s" % feature(dname), res)
            if crashed(r) or r.err.strip():
                step["stderr"] = r.err.decode("utf-8", "replace")[-200:]
                return ("violated", "C18:pwd-listing:error:dir=%s" % feature(dname), res)
            want = [m["text"] for m in model if m["dir"] == cwd]
            joined = "\n".join(lines)
            missing = [t for t in want if t not in joined]
            if missing:
                res["missing"] = missing[:3]
                return ("violated", "C18:pwd-listing:rows-of-this-directory-missing:dir=%s" % feature(dname), res)
            if not any(c in dname for c in "%_\\"):
                want_all = "\n".join(want).split("\n") if want else []
                if lines != want_all:
                    res["listing"], res["want"] = lines[-6:], want_all[-6:]
                    return ("violated", "C18:pwd-listing:wrong-rows:dir=%s" % feature(dname), res)
        elif op == "delete":
            rs = rows(db)
            if not rs:
                continue
            victims = rng.sample(rs, min(len(rs), rng.choice([1, 1, 2, 3])))
            ids = [v[0] for v in victims]
            # ids that name no row (stale, never used) and repeated ids, anywhere in the list: the live rows named
            # next to them are still the ones to go
            if rng.random() < 0.5:
                extra = [max(x[0] for x in rs) + rng.choice([1, 1000]), ids[0]]
                for e in extra[:rng.choice([1, 2])]:
                    ids.insert(rng.randrange(len(ids) + 1), e)
                step["with_ids_naming_no_row_or_repeated"] = True
            step["ids"] = ids
            r = run_cicada(sb, ["-c", "history delete %s" % " ".join(str(i) for i in ids)], cwd=cwd, timeout=30)
            keep = []
            vt = [(v[1], v[2]) for v in victims]
            for m in model:
                if (m["text"], m["ts"]) in vt:
                    vt.remove((m["text"], m["ts"]))
                    continue
                keep.append(m)
            model[:] = keep
            bad = check_rows(step, "delete")
            if bad:
                return ("violated", "C18:delete:%s%s" % (bad, ":list-has-stale-or-repeated-ids" if step.get("with_ids_naming_no_row_or_repeated") else ""), res)
    res["final_rows"] = len(model)
    return ("held", None, res)


def judge_pty(case):
    """interactive: leading blanks and immediate repeats are not recorded; everything else once, verbatim"""
    sb = _sb
    sb.clean_work()
    rng = common.rng_for(case["seed"], "c18pty")
    db = os.path.join(sb.home, "history.sqlite")
    for f in (db, db + "-journal", db + "-wal"):
        if os.path.exists(f):
            os.unlink(f)
    dname = rng.choice(DIRNAMES)
    cwd = os.path.join(os.path.realpath(sb.work), dname)
    os.makedirs(cwd, exist_ok=True)
    s = ptydrv.PtySession(sb, cwd=cwd)
    res = {"typed": [], "dir": dname}
    try:
        ok, _ = s.wait_prompt(15)
        if not ok:
            return ("inconclusive", "no prompt", res)
        want = []
        prev = None
        for k in range(rng.randint(3, 10)):
            r = rng.random()
            base = "vp_argv %s" % rng.choice(["a", "b c", "'q %'", '"d _"', "x\\;y", "é中", "--opt", "p)"])
            if r < 0.25:
                text = " " + base
            elif r < 0.45 and prev is not None:
                text = prev
            elif r < 0.57 and prev is not None:
                # a line typed with a leading blank that is rewritten by `!!` before it runs: still not recorded
                text = " !! zzB%d" % k
            else:
                text = base + " %d" % k
            res["typed"].append(text)
            ok, out = s.line(text, 15)
            if not ok:
                if not s.alive():
                    return ("violated", "C18:interactive:shell-died", res)
                return ("inconclusive", "prompt did not come back", res)
            if not text.startswith(" ") and text != prev:
                want.append(text)
            if not text.startswith(" "):
                prev = text
            else:
                pass
        time.sleep(0.1)
    finally:
        s.close()
    got = [r[1] for r in rows(db)]
    res["rows"], res["want"] = got, want
    if got != want:
        if any("zzB" in g for g in got) or any(g.startswith(" ") or (" " + g) in [t for t in res["typed"] if t.startswith(" ")] and g not in want for g in got):
            return ("violated", "C18:interactive:line-with-leading-blank-recorded", res)
        if len(got) > len(want):
            return ("violated", "C18:interactive:repeat-or-extra-row-recorded:dir=%s" % feature(dname), res)
        return ("violated", "C18:interactive:rows-missing-or-changed:dir=%s" % feature(dname), res)
    return ("held", None, res)


def judge_overlap(case):
    """two interactive sessions share the database; a line submitted first but finishing last must still be
    listed first (listing order = submission order)"""
    sb = _sb
    sb.clean_work()
    sb.reset_log()
    db = os.path.join(sb.home, "history.sqlite")
    for f in (db, db + "-journal", db + "-wal"):
        if os.path.exists(f):
            os.unlink(f)
    a = ptydrv.PtySession(sb)
    b = None
    res = {}
    try:
        ok, _ = a.wait_prompt(15)
        b = ptydrv.PtySession(sb)
        ok2, _ = b.wait_prompt(15)
        if not (ok and ok2):
            return ("inconclusive", "no prompt", res)
        tag = "L%d" % (case["seed"] % 1000)
        a.send("vp_job %s 1.2\r" % tag)
        t0 = time.time()
        while time.time() - t0 < 10 and not any(x["name"] == "vp_job" for x in sb.records()):
            time.sleep(0.05)
        time.sleep(0.2)
        okb, _ = b.line("vp_argv quick %s" % tag, 15)
        oka, _ = a.wait_prompt(15)
        if not (oka and okb):
            return ("inconclusive", "prompt did not come back", res)
        time.sleep(0.1)
    finally:
        a.close()
        if b:
            b.close()
    got = [r[1] for r in rows(db)]
    res["rows_in_listing_order"] = got
    want = ["vp_job %s 1.2" % tag, "vp_argv quick %s" % tag]
    if got != want:
        if sorted(got) == sorted(want):
            return ("violated", "C18:interactive-overlap:listing-order-is-not-submission-order", res)
        return ("violated", "C18:interactive-overlap:rows-missing-or-changed", res)
    r = run_cicada(sb, ["-c", "history -a -n -l 100"], timeout=30)
    lines = r.out.decode("utf-8", "replace").split("\n")[:-1]
    if lines != want:
        res["fresh_process_listing"] = lines
        return ("violated", "C18:interactive-overlap:fresh-process-listing-order", res)
    return ("held", None, res)


def judge_restart(case):
    """a line is submitted again later (not immediately), then a new interactive shell starts (cicada purges duplicate
    texts at start-up) and submits one more line: every text is still there, and the texts are listed in the order of
    their most recent submissions"""
    sb = _sb
    sb.clean_work()
    rng = common.rng_for(case["seed"], "c18restart")
    db = os.path.join(sb.home, "history.sqlite")
    for f in (db, db + "-journal", db + "-wal"):
        if os.path.exists(f):
            os.unlink(f)
    pool = ["vp_argv a", "vp_argv 'q %'", 'vp_argv "it\'s 100%"', "vp_argv b_2 ')' ; vp_argv --", "vp_argv é中", "vp_argv x\\;y"]
    texts = rng.sample(pool, 3)
    first = [texts[0], texts[1], texts[0]] if rng.random() < 0.6 else [texts[0], texts[1], texts[2], texts[1], texts[0]]
    second = [rng.choice([texts[2] + " z", "vp_argv last"])]
    # (with HISTORY_DELETE_DUPS=0 nothing is purged at start-up: every row stays, in the order typed)
    keep_dups = rng.random() < 0.4
    res = {"typed": [first, second], "HISTORY_DELETE_DUPS": "0" if keep_dups else None}
    for part in (first, second):
        s = ptydrv.PtySession(sb, env_extra={"HISTORY_DELETE_DUPS": "0"} if keep_dups else None)
        try:
            ok, _ = s.wait_prompt(15)
            if not ok:
                return ("inconclusive", "no prompt", res)
            for text in part:
                ok, _ = s.line(text, 15)
                if not ok:
                    if not s.alive():
                        return ("violated", "C18:interactive:shell-died", res)
                    return ("inconclusive", "prompt did not come back", res)
            time.sleep(0.1)
        finally:
            s.close()
    allsub = first + second
    last_order = [t for i, t in enumerate(allsub) if t not in allsub[i + 1:]]
    got = [r[1] for r in rows(db)]
    res["rows_in_listing_order"], res["submitted"] = got, allsub
    if keep_dups and got != allsub:
        return ("violated", "C18:interactive-restart:rows-purged-although-duplicates-are-to-be-kept", res)
    if got not in (allsub, last_order):
        if sorted(set(got)) != sorted(set(allsub)):
            return ("violated", "C18:interactive-restart:a-submitted-text-is-gone-or-changed", res)
        return ("violated", "C18:interactive-restart:listing-is-not-in-the-order-of-the-most-recent-submissions", res)
    return ("held", None, res)


def _work(case):
    try:
        if case["kind"] == "restart":
            return judge_restart(case)
        if case["kind"] == "overlap":
            return judge_overlap(case)
        if case["kind"] == "pty":
            return judge_pty(case)
        return judge(case)
    except common.InfraError as e:
        return ("inconclusive", "infra: %s" % e, {})
    except Exception as e:
        import traceback
        return ("inconclusive", "harness: %r %s" % (e, traceback.format_exc()[-600:]), {})


def run(tier, seed):
    common.build_helpers()
    cicada = common.build_cicada("debug")
    rep = Report("C18", tier, seed)
    rep.rule = ("histories of 12..40 steps (add -t <increasing ts>, list, search PATTERN, --pwd listing, delete ids, 8 "
                "concurrent adders) issued by separate `cicada -c` processes from 12 working directories named with "
                "' \" % _ \\ ; -- ) blanks and multi-byte text; texts and patterns over the same alphabet including "
                "SQL-injection shaped strings; the database is created by a first interactive session; plus pty "
                "sessions typing lines with leading blanks and immediate repeats, and pairs of overlapping sessions (a slow line submitted first, a quick line from a second session finishing earlier), and sessions that submit a line again later followed by a second interactive shell (start-up purge of duplicate texts).  Non-trivial = always; distinct by seed.")
    rep.assumptions = ["rows are read with python's sqlite3 after every mutating step", "LIKE is ASCII case-insensitive; "
                       "exact search results are only demanded for wildcard-free ASCII patterns"]
    rng = common.rng_for(seed, "C18")
    thorough = tier == "thorough"
    cases = []
    for _ in range(3000 if thorough else 300):
        cases.append({"kind": "history", "seed": rng.randrange(1 << 30), "nsteps": rng.randint(12, 40)})
    for _ in range(400 if thorough else 64):
        cases.append({"kind": "pty", "seed": rng.randrange(1 << 30)})
    for _ in range(100 if thorough else 16):
        cases.append({"kind": "overlap", "seed": rng.randrange(1 << 30)})
    for _ in range(100 if thorough else 16):
        cases.append({"kind": "restart", "seed": rng.randrange(1 << 30)})
    results = common.pmap(_work, cases, init=_init, initargs=(cicada,), chunksize=1)
    ops = {}
    for case, (verdict, sig, res) in zip(cases, results):
        rep.case(json.dumps(case), True, sample={"steps": res.get("steps", [])[:6]} if case["kind"] == "history" else {"typed": res.get("typed")})
        for st in res.get("steps", []):
            ops[st["op"]] = ops.get(st["op"], 0) + 1
        rep.count("cases_" + case["kind"])
        if verdict == "held":
            rep.hold()
        elif verdict == "violated":
            rep.violate(sig, case, res)
        else:
            rep.inconc(sig, res)
    rep.extra["operations_performed"] = ops
    return rep.finish()


def replay(path):
    common.build_helpers()
    cicada = common.build_cicada("debug")
    _init(cicada)
    with open(path) as f:
        data = json.load(f)
    bad = 0
    for c in data["cases"]:
        v, sig, res = _work(c["case"])
        print(v, sig, json.dumps(res, default=str)[:1200])
        if v == "violated":
            bad = 1
    if bad:
        print("VIOLATION property=C18 replay=%s" % path)
    return bad
