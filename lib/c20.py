"""C20 what TAB inserts for a file name is read back as exactly that file.

Monitors: (1) live pty sessions: the driver types `vp_argv ` + an optional open quote + a prefix of a
generated entry name + TAB (+ the closing quote for a directory in a quote context) + Enter in a
prepared directory; the observer vp_argv records the argv the program finally receives.  (2) an
in-process companion (harness/src/c20.rs, hook exports of escaped_word_start / complete_path)
emulating the line editor's splice for every name of length <= 2 (thorough 3) over the special
alphabet in the three quoting contexts, and checking the candidate sets offered for 5 populations."""
import json
import os
import re
import subprocess
import time

import common
import ptydrv
from common import Report, Sandbox

_sb = None
ALPHA = list(" '\"$*{}~#|&;<>()\\!?[]`,^=%") + ["a", "b", "é", "中", "-", ".", "x1"]


def _init(cicada):
    global _sb
    _sb = Sandbox(cicada, "c20")


def family(name, ctx, prefix="", entries=None):
    if "|" in prefix:
        # the completer splits the word at `|` (so that `ls|wc<TAB>` completes a command name)
        return "typed-prefix-contains-a-pipe-character"
    # (two families that lived here - a blank followed by ~ in the typed prefix, a quoted word starting with ~ - were the path
    # completer applying its home-directory expansion to protected text; repaired, so such a failure is reported as it comes)
    if prefix.endswith("$"):
        # the line then ends in `$` (escaped, or inside single quotes), which the dispatcher takes for the start of a
        # variable name whatever protects it
        return "typed-prefix-ending-in-a-dollar-goes-to-the-variable-completer"
    if ctx == "unq" and re.search(r"\$[A-Za-z_]", prefix):
        return "unquoted:prefix-that-looks-like-a-variable-reference-is-completed-unescaped"
    dollar_ref = re.search(r"\$[A-Za-z0-9_$?{(]", name) is not None
    bq_pair = name.count("`") >= 2
    if ctx == "unq":
        # (a family applies only where its pass would really change this name - see common.esc_effects)
        eff = common.esc_effects(name, entries)
        if "tilde" in eff:
            return "unquoted:leading-tilde-is-not-protected"
        if "backquote" in eff:
            return "unquoted:escaped-backquote-pair-is-run"
        if "dollar" in eff:
            return "unquoted:escaped-dollar-not-at-word-start-is-expanded"
        if "star" in eff:
            return "unquoted:escaped-star-is-globbed"
        if name.endswith("&") and (name == "&" or "/" in name):
            return "unquoted:escaped-ampersand-as-last-word-backgrounds"
        if "brace" in eff:
            return "unquoted:escaped-braces-are-expanded"
        return None
    if ctx == "dq":
        if name.endswith("\\"):
            return "double-quoted:trailing-backslash-escapes-the-closing-quote"
        if '\\"' in name:
            return "double-quoted:backslash-directly-before-a-double-quote-in-name"
        if dollar_ref:
            return "double-quoted:dollar-reference-in-name-is-expanded"
        if bq_pair:
            return "double-quoted:backquote-pair-in-name-is-run"
        return None
    if "'" in name:
        return "single-quoted:name-contains-a-single-quote"
    return None


def unusable_pattern(name):
    """names the wildcard matcher rejects as a pattern: `**` that is not a whole path component, three stars in a row, a `[`
    with no `]` after it"""
    if "***" in name or ("**" in name and name != "**"):
        return True
    i = name.find("[")
    while i >= 0:
        if "]" not in name[i + 1:]:
            return True
        i = name.find("[", i + 1)
    return False


def type_prefix(prefix, ctx):
    """how a user types this prefix in this context (None: cannot be typed that way)"""
    if ctx == "unq":
        return "".join(c if (c.isalnum() or c in "-.") else "\\" + c for c in prefix)
    if ctx == "dq":
        if any(c in prefix for c in "$`\\"):
            return None
        return '"' + prefix.replace('"', '\\"')
    if "'" in prefix:
        return None
    return "'" + prefix


def gen_population(rng):
    n = rng.randint(1, 12)
    names = set()
    while len(names) < n:
        k = rng.choice([1, 2, 3, 3, 4, 6])
        nm = "".join(rng.choice(ALPHA) for _ in range(k))
        if rng.random() < 0.08:
            # names that are no usable wildcard pattern (the wildcard pass sees the escaped name as an ordinary word)
            nm = rng.choice(["a**b", "x[*y", "t***", "**y", "q*[", "p**", "m[*", "z***z"])
        if nm in (".", "..") or "/" in nm or "\0" in nm or nm.startswith("-") or "\t" in nm:
            continue
        names.add(nm)
    pop = [(nm, rng.random() < 0.25) for nm in sorted(names)]
    return pop


def unique_prefix(name, pop):
    others = [n for n, _ in pop if n != name]
    for k in range(1, min(3, len(name)) + 1):
        p = name[:k]
        if not any(o.startswith(p) for o in others):
            return p
    return None


def judge(case):
    sb = _sb
    sb.clean_work()
    sb.reset_log()
    pop = case["pop"]
    sub = case.get("subdir")
    base = os.path.join(sb.work, sub) if sub else sb.work
    if sub:
        try:
            os.makedirs(base)
        except OSError:
            return ("inconclusive", "cannot create entry", {})
    for nm, isd in pop:
        p = os.path.join(base, nm)
        try:
            if isd:
                os.makedirs(p)
            else:
                open(p, "w").close()
        except OSError:
            return ("inconclusive", "cannot create entry", {})
    name, isd, ctx = case["name"], case["is_dir"], case["ctx"]
    if case.get("cd"):
        # unique among the *directories*; files may (and one does) share it
        prefix = name[:min(3, len(name))]
        if any(d and n != name and n.startswith(prefix) for n, d in pop):
            prefix = None
    else:
        prefix = unique_prefix(name, pop)
    res = {"name": name, "ctx": ctx, "is_dir": isd, "population": [n for n, _ in pop]}
    if prefix is None:
        return ("held", None, dict(res, skipped="no unique prefix of <=3 characters"))
    # sometimes type more than the shortest unique prefix (the word then holds escaped characters and blanks)
    extra = case.get("extra", 0)
    if extra:
        prefix = name[:min(len(name), len(prefix) + extra)]
    if sub:
        # the entry lives in a sub-directory whose own name needs protecting: the word typed is dir/prefix
        prefix = sub + "/" + prefix
        res["subdir"] = sub
    typed = type_prefix(prefix, ctx)
    if typed is None:
        return ("held", None, dict(res, skipped="prefix cannot be typed in this context"))
    cd = bool(case.get("cd"))
    res["typed"] = ("cd " if cd else "vp_argv ") + typed
    s = ptydrv.PtySession(sb)
    try:
        ok, _ = s.wait_prompt(15)
        if not ok:
            return ("inconclusive", "no prompt", res)
        s.send(("cd " if cd else "vp_argv ") + typed)
        s.drain(0.05, 0.6)
        s.send("\t")
        echoed = s.drain(0.15, 1.5)
        if isd and ctx != "unq":
            s.send('"' if ctx == "dq" else "'")
        if cd:
            # what TAB inserted after `cd` is observed by turning the line into `vp_argv cd <word>` (Ctrl-A, prefix)
            s.send("\x01")
            s.drain(0.05, 0.3)
            s.send("vp_argv ")
            s.drain(0.05, 0.3)
        s.send("\r")
        t0 = time.time()
        rec = None
        while time.time() - t0 < 5:
            s.drain(0.05, 0.3)
            recs = [x for x in sb.records() if x["name"] == "vp_argv"]
            if recs:
                rec = recs[0]
                break
            if not s.alive():
                break
        res["echo"] = ptydrv_clean(s.all[-300:])
        if not s.alive():
            return ("violated", "C20:pty:shell-died:%s" % ctx, res)
        want = [(sub + "/" if sub else "") + name + ("/" if isd else "")]
        if cd:
            want = ["cd"] + want
        # (inside a sub-directory the wildcard pass walks the path: not modelled, assume it matches; a directory is completed
        # with a trailing slash, which the wildcard pass drops from whatever it matches - the entry itself included)
        fam = family((sub + "/" if sub else "") + name, ctx, prefix, None if (sub or isd) else [n for n, _ in pop])
        if rec is None:
            # nothing ran: continuation prompt, background, syntax error ...
            sym = "program-did-not-run"
        else:
            got = rec["argv"][1:]
            res["argv"] = got
            if got == want:
                return ("held", None, res)
            sym = "argument-differs-from-entry-name"
        if fam:
            return ("violated", "C20:%s" % fam, res)
        chars = "".join(sorted({("SP" if c == " " else c) for c in name if not c.isalnum()}))
        if cd:
            return ("violated", "C20:pty:after-cd:%s:chars=%s:%s" % (ctx, chars, sym), res)
        if sub:
            dchars = "".join(sorted({("SP" if c == " " else c) for c in sub if not c.isalnum()}))
            return ("violated", "C20:pty:%s:in-subdir-chars=%s:chars=%s:%s%s" % (ctx, dchars, chars, sym, ":dir" if isd else ""), res)
        return ("violated", "C20:pty:%s:chars=%s:%s%s" % (ctx, chars, sym, ":dir" if isd else ""), res)
    finally:
        s.close()


ANSI = re.compile(rb"\x1b\[[0-9;?]*[A-Za-z]|\x01|\x02")


def ptydrv_clean(b):
    return ANSI.sub(b"", b).decode("utf-8", "replace")


def _work(case):
    try:
        return judge(case)
    except Exception as e:
        import traceback
        return ("inconclusive", "harness: %r %s" % (e, traceback.format_exc()[-600:]), {})


def run(tier, seed):
    common.build_helpers()
    cicada = common.build_cicada("debug")
    harness, why_not = common.try_build_harness()
    rep = Report("C20", tier, seed)
    if harness is None:
        rep.inconc("harness: the in-process harness did not build, in-process layer not run (%s)" % why_not)
    thorough = tier == "thorough"
    rep.rule = ("pty: directories of 1..12 generated entries (names of 1..6 symbols over the special alphabet incl. blank, both "
                "quotes, $ * { } ~ # | & ; < > ( ) \\ ! ? [ ] ` , ^ = %%, non-ASCII; a quarter are directories), one entry "
                "completed per session from its shortest unique prefix (<=3 chars) in unquoted / open-double-quote / "
                "open-single-quote context, 40%% of the sessions with the entries inside a sub-directory whose own name is drawn "
                "from the same alphabet (the word typed is dir/prefix), and sessions completing a directory after `cd` next to a file that "
                "shares the typed prefix (what TAB inserted is read back by turning the line into `vp_argv cd <word>`); in-process: every name of length<=%d over a 30-symbol alphabet x 3 contexts "
                "(file and directory), plus candidate sets for 5 populations x all prefixes x {path, cd}.  Non-trivial = name "
                "contains a non-alphanumeric character; distinct by case." % (3 if thorough else 2))
    rep.assumptions = ["a prefix is typed the way cicada's own tokenizer reads it back (escaped, else raw); prefixes that "
                       "cannot be typed in a context are skipped and counted", "the closing quote is typed by the user after a "
                       "directory completed inside quotes"]
    n = common.NPROC
    scratch = common.mkscratch("c20l")
    maxlen = 3 if thorough else 2
    jobs = [common.FileProc([harness, "c20", str(maxlen), str(i), str(n), os.path.join(scratch, "d%d" % i)]) for i in range(n if harness else 0)]
    if harness:
        jobs.append(common.FileProc([harness, "c20cand", os.path.join(scratch, "cand")]))
    inproc = 0
    untypable = 0
    for p in jobs:
        o, _ = p.communicate()
        last = [l for l in o.decode("utf-8", "replace").split("\n") if l.startswith("{")]
        if p.returncode != 0 or not last:
            rep.inconc("harness: in-process shard exited %s" % p.returncode)
            continue
        d = json.loads(last[-1])
        inproc += d.get("judged", 0) + d.get("candidate_queries", 0)
        untypable += d.get("prefix_cannot_be_typed", 0)
        for f in d["failures"]:
            rep.violate(f["signature"], {"layer": "in-process", "example": f["example"]}, {"count": f["count"]})
    common.rmtree(scratch)
    rep.extra["inprocess_cases"] = inproc
    rep.extra["inprocess_prefix_cannot_be_typed"] = untypable
    rep.extra["inprocess_exhaustive"] = True
    rng = common.rng_for(seed, "C20")
    cases = []
    for _ in range(2500 if thorough else 420):
        pop = gen_population(rng)
        name, isd = rng.choice(pop)
        cases.append({"pop": pop, "name": name, "is_dir": isd, "ctx": rng.choice(["unq", "dq", "sq"]),
                      "extra": rng.choice([0, 0, 1, 2, 3, 5])})
    # after `cd`: only directories are candidates, so a file that shares the typed prefix must not get in the way
    for _ in range(1200 if thorough else 200):
        pop = [(n, d) for n, d in gen_population(rng)]
        dname = "".join(rng.choice(ALPHA) for _ in range(rng.choice([2, 3, 4])))
        if rng.random() < 0.5:
            dname = dname[:1] + " " + dname[1:]
        if dname in (".", "..") or dname.startswith("-") or any(n == dname for n, _ in pop):
            continue
        pop = [(n, d) for n, d in pop if not (d and (n.startswith(dname[:3]) or dname.startswith(n)))]
        pop.append((dname, True))
        pre = dname[:min(3, len(dname))]
        if not any(n == pre + "_f" for n, _ in pop):
            pop.append((pre + "_f", False))          # a plain file sharing the prefix
        cases.append({"pop": sorted(pop), "name": dname, "is_dir": True, "ctx": rng.choice(["unq", "unq", "dq", "sq"]),
                      "extra": 0, "cd": True})
    for _ in range(1500 if thorough else 260):
        pop = gen_population(rng)
        name, isd = rng.choice(pop)
        sub = None
        while sub is None or sub in (".", "..") or sub.startswith("-"):
            sub = "".join(rng.choice(ALPHA) for _ in range(rng.choice([1, 2, 3, 4])))
        cases.append({"pop": pop, "name": name, "is_dir": isd, "ctx": rng.choice(["unq", "unq", "dq", "sq"]),
                      "extra": rng.choice([0, 0, 1, 2]), "subdir": sub})
    results = common.pmap(_work, cases, init=_init, initargs=(cicada,), chunksize=1)
    skipped = 0
    for case, (verdict, sig, res) in zip(cases, results):
        nontriv = any(not c.isalnum() for c in case["name"])
        rep.case(json.dumps(case, sort_keys=True), nontriv, sample={"typed": res.get("typed"), "name": case["name"], "argv": res.get("argv")})
        if res.get("skipped"):
            skipped += 1
        rep.count("pty_sessions")
        if verdict == "held":
            rep.hold()
        elif verdict == "violated":
            rep.violate(sig, case, res)
        else:
            rep.inconc(sig, res)
    rep.extra["pty_cases_skipped_before_typing"] = skipped
    rep.evaluations += inproc
    rep.held += inproc - sum(v[0]["detail"].get("count", 1) for v in rep.violations.values() if v[0]["case"].get("layer") == "in-process")
    rep.distinct |= {("in", i) for i in range(inproc)}
    return rep.finish()


def replay(path):
    common.build_helpers()
    _init(common.build_cicada("debug"))
    with open(path) as f:
        data = json.load(f)
    bad = 0
    for c in data["cases"]:
        case = c["case"]
        if case.get("layer") == "in-process":
            print("in-process example:", repr(case["example"]), "- rerun ./check C20 to reproduce")
            bad = 1
            continue
        case["pop"] = [tuple(x) for x in case["pop"]]
        v, sig, res = _work(case)
        print(v, sig, json.dumps(res, default=str)[:800])
        if v == "violated":
            bad = 1
    if bad:
        print("VIOLATION property=C20 replay=%s" % path)
    return bad
