"""C19 arithmetic lines evaluate with standard precedence and never crash the shell.

Monitor: stdout/status of `cicada -c EXPR` and the argv of an observer given `$(EXPR)`, on the
debug binary (overflow checks on) and on a binary built without overflow checks / debug
assertions (release semantics).  Oracle: an exact reference evaluator (python integers checked
against the i64 range, truncating division, right-associative ^, IEEE doubles in float mode);
where an intermediate leaves the i64 range, divides by zero or a literal is out of range, only
"a value or a diagnostic, no panic/signal" is demanded."""
import itertools
import json
import math
import re

import common
from common import Report, Sandbox, run_cicada, crashed

_sb = None
_bins = {}
I64_MAX = 2 ** 63 - 1
I64_MIN = -2 ** 63
ALPHABET = list("019.+-*/^() ")


def _init(cicada, nochecks):
    global _sb
    _sb = Sandbox(cicada, "c19")
    _bins["debug"] = cicada
    _bins["nochecks"] = nochecks


# --------------------------------------------------------------- reference

class Inexact(Exception):
    pass


class ParseError(Exception):
    pass


NUM = re.compile(r"[+-]?[0-9]+(\.[0-9]*)?([eE][+-]?[0-9]+)?")
PREC = {"+": (1, "L"), "-": (1, "L"), "*": (2, "L"), "/": (2, "L"), "^": (3, "R")}


def parse(text):
    """returns an AST per the PEG: expr = term (op term)*, term = num | ( expr ); Pratt precedence"""
    pos = [0]

    def ws():
        while pos[0] < len(text) and text[pos[0]] in " \t":
            pos[0] += 1

    def term():
        ws()
        m = NUM.match(text, pos[0])
        if m:
            pos[0] = m.end()
            return ("num", m.group(0))
        if pos[0] < len(text) and text[pos[0]] == "(":
            pos[0] += 1
            e = expr()
            ws()
            if pos[0] >= len(text) or text[pos[0]] != ")":
                raise ParseError()
            pos[0] += 1
            return e
        raise ParseError()

    def expr():
        items = [term()]
        while True:
            ws()
            if pos[0] < len(text) and text[pos[0]] in PREC:
                op = text[pos[0]]
                save = pos[0]
                pos[0] += 1
                try:
                    t = term()
                except ParseError:
                    pos[0] = save
                    break
                items += [op, t]
            else:
                break
        # precedence climbing over the flat list
        idx = [0]

        def climb(minp):
            lhs = items[idx[0]]
            idx[0] += 1
            while idx[0] < len(items):
                op = items[idx[0]]
                p, assoc = PREC[op]
                if p < minp:
                    break
                idx[0] += 1
                rhs = climb(p + 1 if assoc == "L" else p)
                lhs = ("bin", op, lhs, rhs)
            return lhs
        return ("grp", climb(1))

    e = expr()
    ws()
    if pos[0] != len(text):
        raise ParseError()
    return e


def eval_int(ast):
    k = ast[0]
    if k == "grp":
        return eval_int(ast[1])
    if k == "num":
        s = ast[1]
        if "." in s or "e" in s.lower():
            raise Inexact()
        v = int(s)
        if not (I64_MIN <= v <= I64_MAX):
            raise Inexact()
        return v
    op, a, b = ast[1], eval_int(ast[2]), eval_int(ast[3])
    if op == "+":
        v = a + b
    elif op == "-":
        v = a - b
    elif op == "*":
        v = a * b
    elif op == "/":
        if b == 0:
            raise Inexact()
        v = abs(a) // abs(b)
        if (a < 0) != (b < 0):
            v = -v
    else:
        if b < 0 or b > 200:
            raise Inexact()
        v = a ** b
    if not (I64_MIN <= v <= I64_MAX):
        raise Inexact()
    return v


def eval_float(ast):
    k = ast[0]
    if k == "grp":
        return eval_float(ast[1])
    if k == "num":
        return float(ast[1])
    op, a, b = ast[1], eval_float(ast[2]), eval_float(ast[3])
    try:
        if op == "+":
            return a + b
        if op == "-":
            return a - b
        if op == "*":
            return a * b
        if op == "/":
            if b == 0:
                raise Inexact()
            return a / b
        return math.pow(a, b)
    except (OverflowError, ValueError, ZeroDivisionError):
        raise Inexact()


def is_arith(line):
    return bool(re.search(r"[0-9]+", line)) and bool(re.search(r"\+|\-|\*|/|\^", line)) and \
        bool(re.match(r"^[ 0-9\.\(\)\+\-\*/\^]+[\.0-9 \)]$", line))


def reference(line):
    """-> ('value', v, is_float) | ('any',) | ('not-arithmetic',)"""
    if not is_arith(line):
        return ("not-arithmetic",)
    try:
        ast = parse(line)
    except (ParseError, RecursionError):
        return ("any",)        # looks arithmetic but is malformed: diagnostic expected, nothing exact
    try:
        if "." in line:
            v = eval_float(ast)
            if math.isinf(v) or math.isnan(v):
                return ("any",)
            return ("value", v, True)
        return ("value", eval_int(ast), False)
    except Inexact:
        return ("any",)


# ----------------------------------------------------------------- running

def run_expr(line, binary, form, pad=("", "")):
    sb = _sb
    sb.reset_log()
    line = pad[0] + line + pad[1]
    if form == "c":
        r = run_cicada(sb, ["-c", line], timeout=15.0, binary=_bins[binary])
        out = r.out.decode("utf-8", "replace")
    else:
        r = run_cicada(sb, ["-c", ("vp_argv `%s`" if form == "bq" else "vp_argv $(%s)") % line], timeout=15.0, binary=_bins[binary])
        recs = [x for x in sb.records() if x["name"] == "vp_argv"]
        out = (" ".join(recs[0]["argv"][1:]) if recs else "")
    return r, out


def judge(case):
    line, binary, form = case["line"], case["binary"], case["form"]
    ref = reference(line)
    pad = tuple(case.get("pad", ("", "")))
    r, out = run_expr(line, binary, form, pad)
    res = {"line": line, "binary": binary, "form": form, "blanks_around": list(pad), "rc": r.rc, "out": out[:80],
           "stderr": r.err.decode("utf-8", "replace")[-200:], "reference": [str(x) for x in ref]}
    if r.timed_out:
        return ("violated" if r.diag and r.diag["kind"] == "spin" else "inconclusive", "C19:hang:%s" % binary, res)
    c = crashed(r)
    if c:
        m = re.search(r"panic at ([^ ]+)", c)
        where = m.group(1).rsplit(":", 1)[0] if m else c.split(" ")[0]
        return ("violated", "C19:shell-crash:%s:%s:%s" % (binary, where, case["feature"]), res)
    if ref[0] == "value":
        txt = out.strip()
        try:
            got = float(txt) if ref[2] else int(txt)
        except ValueError:
            if any(pad) and case.get("cls") == "flat":
                return ("violated", "C19:not-evaluated:with-blanks-around-the-expression:form=%s" % form, res)
            return ("violated", "C19:not-evaluated:%s:%s" % ("float" if ref[2] else "int", case["feature"]), res)
        want = ref[1]
        if ref[2]:
            # + - * / are correctly rounded in IEEE arithmetic: the result is exact to the bit, and Rust prints the
            # shortest text that reads back as the same double; only `^` (powf vs pow) gets a few ulps of tolerance
            ok = got == want or ("^" in line and abs(got - want) <= 4 * abs(math.ulp(want)))
        else:
            ok = got == want
        if not ok:
            return ("violated", "C19:wrong-value:%s:%s" % ("float" if ref[2] else "int", case["feature"]), res)
        if form == "c" and r.rc != 0:
            return ("violated", "C19:status-nonzero-for-valid-expression", res)
    elif ref[0] == "not-arithmetic":
        if form == "c" and re.match(r"^-?[0-9.]+\n$", r.out.decode("utf-8", "replace")) and case.get("negative"):
            return ("violated", "C19:evaluated-a-line-that-is-not-arithmetic", res)
    return ("held", None, res)


INTS = [0, 1, 2, 3, 7, 10, 100, 65536, 2 ** 31 - 1, 2 ** 31, 2 ** 32, 2 ** 62, 2 ** 63 - 1, 2 ** 63, 2 ** 64, 10 ** 19]
# (mostly decimals that are not exact in binary, and magnitudes far apart: regrouping or reordering changes the rounding)
DECS = ["0.5", "1.5", "2.0", "3.25", "10.0", "0.1", "7.", "100.125", "0.2", "0.3", "0.7", "0.9", "1.1", "2.675", "100000000000000000000.0", "0.000001"]


def gen_tree(rng, depth, float_mode):
    if depth == 0 or rng.random() < 0.25:
        if float_mode and rng.random() < 0.5:
            return rng.choice(DECS), False
        v = rng.choice(INTS[:8] if rng.random() < 0.6 else INTS)
        if rng.random() < 0.15:
            return "(-%d)" % v, False
        return str(v), False
    op = rng.choice(["+", "-", "*", "/", "^", "+", "*"])
    a, _ = gen_tree(rng, depth - 1, float_mode)
    if op == "^":
        b = str(rng.choice([0, 1, 2, 3, 5, 10, 31, 32, 62, 63, 64, 70]))
    else:
        b, _ = gen_tree(rng, depth - 1, float_mode)
    sp = rng.choice(["", " ", "  "])
    s = "%s%s%s%s%s" % (a, sp, op, sp, b)
    if rng.random() < 0.4:
        s = "(" + s + ")"
    if rng.random() < 0.1:
        s = "(" + s + ")"
    return s, True


def feature_of(line):
    f = []
    if "." in line:
        f.append("float")
    if "^" in line:
        f.append("pow")
    if re.search(r"[0-9]{19,}", line):
        f.append("long-literal")
    if "/" in line:
        f.append("div")
    return "+".join(f) or "basic"


def gen_cases(tier, seed):
    rng = common.rng_for(seed, "C19")
    thorough = tier == "thorough"
    cases = []
    n = 30000 if thorough else 4000
    for _ in range(n):
        fm = rng.random() < 0.3
        s, has_op = gen_tree(rng, rng.randint(1, 5), fm)
        if not has_op:
            s = s + " + 1"
        if s.startswith("(") and s.endswith(")") and rng.random() < 0.5:
            pass
        # `$(EXPR)` is only used as an observation channel for parenthesis-free expressions with single
        # blanks: cicada's tokenizer does not nest parentheses inside $( ), which is not arithmetic's business
        can_sub = "(" not in s and "  " not in s
        cases.append({"line": s, "binary": rng.choice(["debug", "nochecks"]), "form": rng.choice(["c", "c", "sub"]) if can_sub else "c",
                      "feature": feature_of(s), "cls": "tree"})
    # flat, parenthesis-free expressions (these can also go through the $(EXPR) channel)
    for _ in range(6000 if thorough else 1200):
        k = rng.randint(2, 5)
        fm = rng.random() < 0.25
        parts = []
        for i in range(k):
            parts.append(rng.choice(DECS) if (fm and rng.random() < 0.5) else str(rng.choice(INTS[:9])))
            if i < k - 1:
                parts.append(rng.choice("+-*/^"))
        s = " ".join(parts)
        cases.append({"line": s, "binary": rng.choice(["debug", "nochecks"]), "form": rng.choice(["c", "sub", "sub", "bq"]),
                      "pad": rng.choice([("", ""), ("", ""), (" ", ""), ("", " "), (" ", " "), ("  ", "  ")]),
                      "feature": feature_of(s), "cls": "flat"})
    # every pair of the four exact operators over decimals that are not exact in binary: grouping and order of
    # evaluation show in the last bit (`a + b - c` is `(a + b) - c`)
    sens = ["0.1", "0.2", "0.3", "0.7", "1.1", "100000000000000000000.0"]
    for o1 in "+-*/":
        for o2 in "+-*/":
            for x in sens:
                for y in sens:
                    for z in (sens if thorough else sens[:3]):
                        e = "%s %s %s %s %s" % (x, o1, y, o2, z)
                        cases.append({"line": e, "binary": "debug", "form": "c", "feature": "float-triple:%s%s" % (o1, o2), "cls": "float-triple"})
    # every operator on every pair of boundary operands
    bounds = ["(-9223372036854775808)", "9223372036854775807", "(-1)", "0", "1", "(-9223372036854775807)", "2", "64"]
    for a in bounds:
        for b in bounds:
            for op in "+-*/^":
                for binary in ("debug", "nochecks"):
                    cases.append({"line": "%s %s %s" % (a, op, b), "binary": binary, "form": "c",
                                  "feature": "boundary-pair:" + op, "cls": "boundary"})
    # precedence / associativity over all operator pairs and triples with small operands
    for ops in itertools.product("+-*/^", repeat=2):
        for a, b, c in ((7, 3, 2), (2, 3, 2), (100, 7, 3), (9, 2, 2)):
            cases.append({"line": "%d %s %d %s %d" % (a, ops[0], b, ops[1], c), "binary": "debug", "form": "c",
                          "feature": "precedence-pair", "cls": "pairs"})
            cases.append({"line": "%d.0 %s %d %s %d" % (a, ops[0], b, ops[1], c), "binary": "nochecks", "form": "c",
                          "feature": "precedence-pair-float", "cls": "pairs"})
    if thorough:
        for ops in itertools.product("+-*/^", repeat=3):
            cases.append({"line": "9 %s 2 %s 3 %s 2" % ops, "binary": "debug", "form": "sub", "feature": "precedence-triple",
                          "cls": "pairs"})
    # every short string over the arithmetic alphabet: classification + crash freedom
    maxlen = 5 if thorough else 4
    for k in range(1, maxlen + 1):
        for t in itertools.product(ALPHABET, repeat=k):
            s = "".join(t)
            if not is_arith(s):
                continue     # not an arithmetic line: runs as a command (covered by C05)
            cases.append({"line": s, "binary": "debug", "form": "c", "feature": "short-string", "cls": "short"})
    for neg in ["1 + a", "x 1 + 1", "echo 1 + 1", "1 +", "+ 1", "1 ** 2", "(1 + 2", "1 + 2)"]:
        cases.append({"line": neg, "binary": "debug", "form": "c", "feature": "negative", "cls": "negative", "negative": True})
    return cases


def _work(case):
    try:
        return judge(case)
    except Exception as e:
        import traceback
        return ("inconclusive", "harness: %r %s" % (e, traceback.format_exc()[-500:]), {})


def run(tier, seed):
    common.build_helpers()
    cicada = common.build_cicada("debug")
    nochecks = common.build_cicada("nochecks")
    rep = Report("C19", tier, seed)
    rep.rule = ("random expression trees (depth<=5) over boundary operands (0, +-1.., 2^31, 2^63-1, 2^63, 2^64, 10^19, "
                "exponents 0..70, decimals), random spacing and redundant parentheses, on the debug and the "
                "no-overflow-check binary, as `-c EXPR`, `$(EXPR)` and backquoted, with and without blanks around the expression; all operator pairs (thorough: triples); every pair of + - * / over inexact decimals (bit-exact comparison); every "
                "string of length<=4 (thorough 5) over `0 1 9 . + - * / ^ ( ) blank` that the classification rule "
                "accepts.  Non-trivial = contains an operator; distinct by (line, binary, form).")
    rep.assumptions = ["reference evaluator and PEG-equivalent parser in lib/c19.py", "float results compared within 4 ulp"]
    cases = gen_cases(tier, seed)
    results = common.pmap(_work, cases, init=_init, initargs=(cicada, nochecks), chunksize=16)
    exact = 0
    for case, (verdict, sig, res) in zip(cases, results):
        rep.case((case["line"], case["binary"], case["form"]), True,
                 sample={"line": case["line"], "out": res.get("out"), "reference": res.get("reference")} if case["cls"] == "tree" else None)
        rep.count("cases_" + case["cls"])
        if res.get("reference", [""])[0] == "value":
            exact += 1
        if verdict == "held":
            rep.hold()
        elif verdict == "violated":
            rep.violate(sig, case, res)
        else:
            rep.inconc(sig, res)
    rep.extra["cases_with_exact_expected_value"] = exact
    return rep.finish()


def replay(path):
    common.build_helpers()
    _init(common.build_cicada("debug"), common.build_cicada("nochecks"))
    with open(path) as f:
        data = json.load(f)
    bad = 0
    for c in data["cases"]:
        v, sig, res = judge(c["case"])
        print(v, sig, json.dumps(res, default=str)[:600])
        if v == "violated":
            bad = 1
    if bad:
        print("VIOLATION property=C19 replay=%s" % path)
    return bad
