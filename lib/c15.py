"""C15 script arguments, functions, `source` and exit statuses behave as documented.

Monitor: probe observers record "$0" "$1" "${2}" "$@" and `$?` wherever the generated script, a
function body or a sourced file places them, markers record which commands ran, the driver
records the process exit status.  Oracle: a reference model of the documented semantics run on
the same script structure."""
import json
import os

import common
from common import Report, Sandbox, run_cicada, crashed

_sb = None
ARGS_POOL = ["a1", "b2", "x y", "two  sp", "st*r", "q'q", "semi;c", "eq=1", "-n", "é", "", "C:\\dir\\file", "a\\b"]


def _init(cicada):
    global _sb
    _sb = Sandbox(cicada, "c15")


class Exit(Exception):
    def __init__(self, code):
        self.code = code


class Model:
    def __init__(self, script_path, args, files, root):
        self.events = []
        self.status = 0
        self.funcs = {}
        self.vars = {}
        self.files = files
        self.sete = False
        self.cwd = root
        self.root = root
        self.nassign = 0
        self.loopvars = {}
        self.cursor = {}

    @staticmethod
    def cparams(cp, argv0, args):
        """what a condition line written with the positional parameters passes to its program"""
        if not cp:
            return []
        a = list(args)
        return [a[0] if len(a) > 0 else "", a[1] if len(a) > 1 else "", argv0, " ".join(a)]

    def run_stmts(self, stmts, argv0, args, top=False):
        for st in stmts:
            self.run(st, argv0, args)
            # set -e: a failing command ends the script; a failing *condition* does not (a failure
            # inside the if body has already raised from the nested run)
            if self.sete and self.status != 0 and st[0] not in ("sete", "ifblock", "ifchain", "forblock", "whileblock"):
                raise Exit(self.status)

    def run(self, st, argv0, args):
        k = st[0]
        if k == "probe":
            a = list(args)
            a1 = a[0] if len(a) > 0 else ""
            a2 = a[1] if len(a) > 1 else ""
            form = st[2] if len(st) > 2 else "A"
            if form == "A":
                ev = [st[1], argv0, a1, a2, " ".join(a)]
            elif form == "B":      # a single-quoted word (holding parameter syntax) before the parameters
                ev = [st[1], "lit $1 ${2}", a1, "x" + a2 + "y", argv0]
            elif form == "D":      # braces and parentheses that are text, directly around a parameter
                ev = [st[1], "{" + a1 + "}", "(" + a2 + ")", a1 + "}", "{" + a2]
            else:                  # C: parameters inside longer double-quoted text, quoted literal between them
                ev = [st[1], "a " + a1 + " b", "$@", a2 + ":" + a1, " ".join(a)]
            self.events.append(("vp_argv", ev))
            self.status = 0
        elif k == "status":
            self.events.append(("vp_status", [str(st[1]), st[2]]))
            self.status = st[1]
        elif k == "sprobe":
            self.events.append(("vp_argv", [st[1], str(self.status)]))
            self.status = 0
        elif k == "vprobe":
            self.events.append(("vp_argv", [st[1], self.vars.get(st[2], "")]))
            self.status = 0
        elif k == "cwdprobe":
            self.events.append(("cwd", [st[1], self.cwd]))
            self.status = 0
        elif k == "setvar":
            self.vars[st[1]] = st[2]
            self.status = 0
            self.nassign += 1
        elif k == "cd":
            self.cwd = os.path.join(self.root, st[1])
            self.status = 0
            self.nassign += 1
        elif k == "deffunc":
            self.funcs[st[1]] = st[3]
        elif k == "call":
            body = self.funcs.get(st[1])
            if body is None:
                self.status = 127
                return
            self.run_stmts(body, st[1], st[2])
        elif k == "source":
            body = self.files[st[1]]
            n_before = len(self.events) + self.nassign
            # function definitions of the file are registered first (they are extracted at load time)
            for s2 in body:
                if s2[0] == "deffunc":
                    self.funcs[s2[1]] = s2[3]
            self.run_stmts([s2 for s2 in body if s2[0] != "deffunc"], os.path.join(self.root, st[1]), st[2])
            if len(self.events) + self.nassign == n_before:
                self.status = 0       # a file that runs no command returns 0
        elif k == "exit":
            raise Exit(st[1])
        elif k == "sete":
            self.sete = True
            self.status = 0
        elif k == "ifblock":
            self.events.append(("vp_status", [str(st[1]), st[2]]))
            self.status = st[1]          # $? = most recently executed pipeline (the condition)
            if st[1] == 0:
                self.run_stmts(st[3], argv0, args)
        elif k == "ifchain":
            ran = False
            for code, tag, body, cp in st[1]:
                self.events.append(("vp_status", [str(code), tag] + self.cparams(cp, argv0, args)))
                self.status = code
                if code == 0:
                    self.run_stmts(body, argv0, args)
                    ran = True
                    break
            if not ran and st[2] is not None:
                self.run_stmts(st[2], argv0, args)
        elif k == "forblock":
            for w in st[2]:
                if isinstance(w, list) or isinstance(w, tuple):       # ("arg", n): the n-th positional parameter, unquoted
                    w = args[w[1] - 1]
                self.loopvars[st[1]] = w
                self.run_stmts(st[3], argv0, args)
        elif k == "fprobe":
            a = list(args)
            self.events.append(("vp_argv", [st[1], self.loopvars.get(st[2], ""), a[0] if a else ""]))
            self.status = 0
        elif k == "whileblock":
            while True:
                # the helper's cursor goes on where the previous execution of this loop left it (an exhausted sequence answers 1)
                i = self.cursor.get(st[1], 0)
                self.cursor[st[1]] = i + 1
                code = st[2][i] if i < len(st[2]) else 1
                self.events.append(("vp_cond", [st[1]] + self.cparams(st[4], argv0, args)))
                self.status = code
                if code != 0:
                    break
                self.run_stmts(st[3], argv0, args)
        else:
            raise ValueError(k)


def qarg(a):
    if a == "":
        return "''"
    if "'" in a:
        return '"' + a + '"'
    return "'" + a + "'"


def render(stmts, indent=""):
    out = []
    for st in stmts:
        k = st[0]
        if k == "probe":
            form = st[2] if len(st) > 2 else "A"
            if form == "A":
                out.append(indent + 'vp_argv %s "$0" "$1" "${2}" "$@"' % st[1])
            elif form == "B":
                out.append(indent + "vp_argv %s 'lit $1 ${2}' \"$1\" \"x${2}y\" \"$0\"" % st[1])
            elif form == "D":
                out.append(indent + 'vp_argv %s "{$1}" "($2)" "${1}}" "{${2}"' % st[1])
            else:
                out.append(indent + "vp_argv %s \"a ${1} b\" '$@' \"$2:$1\" \"$@\"" % st[1])
        elif k == "status":
            out.append(indent + "vp_status %d %s" % (st[1], st[2]))
        elif k == "sprobe":
            out.append(indent + "vp_argv %s $?" % st[1])
        elif k == "vprobe":
            out.append(indent + 'vp_argv %s "$%s"' % (st[1], st[2]))
        elif k == "cwdprobe":
            out.append(indent + "vp_argv %s" % st[1])
        elif k == "setvar":
            out.append(indent + "%s=%s" % (st[1], st[2]))
        elif k == "cd":
            out.append(indent + "cd $VPROOT/%s" % st[1])
        elif k == "deffunc":
            out.append(indent + ("function %s() {" if st[2] else "function %s {") % st[1])
            out += render(st[3], indent + "    ")
            out.append(indent + "}")
        elif k == "call":
            out.append(indent + st[1] + "".join(" " + qarg(a) for a in st[2]))
        elif k == "source":
            out.append(indent + "source $VPROOT/%s" % st[1] + "".join(" " + qarg(a) for a in st[2]))
        elif k == "exit":
            out.append(indent + "exit %d" % st[1])
        elif k == "sete":
            out.append(indent + "set -e")
        elif k == "ifblock":
            out.append(indent + "if vp_status %d %s" % (st[1], st[2]))
            out += render(st[3], indent + "    ")
            out.append(indent + "fi")
        elif k == "ifchain":
            for i, (code, tag, body, cp) in enumerate(st[1]):
                out.append(indent + ("if" if i == 0 else "else if") + " vp_status %d %s%s" % (code, tag, CPARAMS if cp else ""))
                out += render(body, indent + "    ")
            if st[2] is not None:
                out.append(indent + "else")
                out += render(st[2], indent + "    ")
            out.append(indent + "fi")
        elif k == "forblock":
            out.append(indent + "for %s in %s" % (st[1], " ".join(w if isinstance(w, str) else "$%d" % w[1] for w in st[2])))
            out += render(st[3], indent + "    ")
            out.append(indent + "done")
        elif k == "fprobe":
            out.append(indent + 'vp_argv %s "$%s" "$1"' % (st[1], st[2]))
        elif k == "whileblock":
            out.append(indent + "while vp_cond %s%s" % (st[1], CPARAMS if st[4] else ""))
            out += render(st[3], indent + "    ")
            out.append(indent + "done")
    return out


CPARAMS = ' "$1" "${2}" "$0" "$@"'


class G:
    def __init__(self, rng):
        self.rng = rng
        self.n = 0
        self.files = {}
        self.funcnames = []

    def tag(self, p):
        self.n += 1
        return "%s%d" % (p, self.n)

    def args(self, special):
        pool = ARGS_POOL if special else ARGS_POOL[:2] + ["c3", "d4"]
        return [self.rng.choice(pool) for _ in range(self.rng.randint(0, 4))]

    def simple(self):
        r = self.rng.random()
        if r < 0.35:
            return ("probe", self.tag("P"), self.rng.choice(["A", "A", "B", "C", "D"]))
        if r < 0.70:
            return ("status", self.rng.choice([0, 0, 1, 2, 7]), self.tag("M"))
        return ("sprobe", self.tag("S"))

    def block(self, depth, where, plain_args=0):
        """a block whose condition lines / word list / body use the positional parameters of the place it stands in"""
        def body():
            b = [self.simple() for _ in range(self.rng.randint(1, 3))]
            if where == "top" and self.rng.random() < 0.06:
                b.insert(self.rng.randint(0, len(b) - 1), ("sete",))        # switched on inside a block body
            if depth < 1 and self.rng.random() < 0.25:
                b.insert(self.rng.randint(0, len(b)), self.block(depth + 1, where, plain_args))
                b.append(("status", 0, self.tag("M")))
            return b
        r = self.rng.random()
        if r < 0.45:
            arms = [(self.rng.choice([0, 1, 1, 2]), self.tag("I"), body(), self.rng.random() < 0.7) for _ in range(self.rng.randint(1, 3))]
            return ("ifchain", arms, body() if self.rng.random() < 0.5 else None)
        if r < 0.75:
            var = self.rng.choice(["v", "it", "x_1"])
            words = [self.rng.choice(["w1", "w2", "k.txt", "9"]) for _ in range(self.rng.randint(1, 3))]
            if plain_args and self.rng.random() < 0.6:
                words.insert(self.rng.randint(0, len(words)), ("arg", self.rng.randint(1, plain_args)))
            return ("forblock", var, words, [("fprobe", self.tag("F"), var)] + body())
        seq = [0] * self.rng.randint(0, 3) + [self.rng.choice([1, 1, 2])]
        return ("whileblock", self.tag("K"), seq, body(), self.rng.random() < 0.7)

    def func(self):
        if self.funcnames and self.rng.random() < 0.3:
            # a name that is defined already gets a new body (in the same file or through a sourced one):
            # calls made afterwards run the latest definition
            name = self.rng.choice(self.funcnames)
        else:
            name = self.rng.choice(["f", "my_fn", "do-it", "_g", "fn2", "a-b_c"]) + str(len(self.funcnames))
            self.funcnames.append(name)
        body = [self.simple() for _ in range(self.rng.randint(1, 4))]
        if self.rng.random() < 0.08:
            # the option is switched on inside the function: a failure later in the same call already ends the script
            body.insert(self.rng.randint(0, len(body) - 1), ("sete",))
        if self.rng.random() < 0.3:
            body.insert(self.rng.randint(0, len(body)), self.block(0, "func"))
            body.append(("status", self.rng.choice([0, 0, 3]), self.tag("M")))
        return ("deffunc", name, self.rng.random() < 0.5, body)

    def srcfile(self, depth, special):
        name = "inc%d.sh" % len(self.files)
        self.files[name] = None
        body = []
        for _ in range(self.rng.randint(1, 5)):
            r = self.rng.random()
            if r < 0.4:
                body.append(self.simple())
            elif r < 0.55:
                body.append(("setvar", "V%d" % self.rng.randint(1, 3), self.tag("val")))
            elif r < 0.65:
                body.append(self.func())
            elif r < 0.75:
                body.append(("cd", self.rng.choice(["d1", "d2"])))
            elif r < 0.85 and depth < 3:
                body.append(("source", self.srcfile(depth + 1, special), self.args(special)))
            elif r < 0.93:
                body.append(self.block(0, "source"))
                body.append(("status", self.rng.choice([0, 0, 3]), self.tag("M")))
            else:
                body.append(self.simple())
        self.files[name] = body
        return name

    def top(self, special, plain_args=0):
        stmts = []
        for _ in range(self.rng.randint(0, 3)):
            stmts.append(self.func())
        n = self.rng.randint(3, 12)
        for i in range(n):
            r = self.rng.random()
            if r < 0.35:
                stmts.append(self.simple())
            elif r < 0.55 and self.funcnames:
                stmts.append(("call", self.rng.choice(self.funcnames), self.args(special)))
                if self.rng.random() < 0.7:
                    stmts.append(("sprobe", self.tag("S")))
            elif r < 0.70:
                stmts.append(("source", self.srcfile(1, special), self.args(special)))
                if self.rng.random() < 0.7:
                    stmts.append(("sprobe", self.tag("S")))
            elif r < 0.78:
                stmts.append(("vprobe", self.tag("W"), "V%d" % self.rng.randint(1, 3)))
            elif r < 0.84:
                stmts.append(("cwdprobe", self.tag("C")))
            elif r < 0.88:
                stmts.append(("sete",))
            elif r < 0.92:
                stmts.append(("exit", self.rng.choice([0, 1, 5, 42, 255])))
            elif r < 0.97:
                stmts.append(("ifblock", self.rng.choice([0, 0, 1]), self.tag("I"), [self.simple() for _ in range(self.rng.randint(1, 3))]))
                # what $? / the script status is right after an `if` none of whose branches ran is not
                # specified by the statement: always put a plain command behind the block
                stmts.append(("status", self.rng.choice([0, 0, 3]), self.tag("M")))
            else:
                stmts.append(self.simple())
            if self.rng.random() < 0.12:
                stmts.append(self.block(0, "top", plain_args))
                stmts.append(("status", self.rng.choice([0, 0, 3]), self.tag("M")))
        return stmts


def features(stmts, files):
    f = set()

    def walk(ss, where):
        for st in ss:
            if st[0] == "call":
                f.add("function-call")
            elif st[0] == "source":
                f.add("source")
                walk(files[st[1]], "source")
            elif st[0] == "deffunc":
                f.add("func-in-" + where)
                walk(st[3], "func")
            elif st[0] in ("exit", "sete", "ifblock"):
                f.add(st[0] + "-in-" + where)
                if st[0] == "ifblock":
                    walk(st[3], where)
            elif st[0] == "ifchain":
                f.add("ifchain-in-" + where)
                if any(a[3] for a in st[1]):
                    f.add("condition-with-parameters-in-" + where)
                for a in st[1]:
                    walk(a[2], where)
                if st[2] is not None:
                    walk(st[2], where)
            elif st[0] == "forblock":
                f.add("for-in-" + where)
                if any(not isinstance(w, str) for w in st[2]):
                    f.add("for-over-parameters-in-" + where)
                walk(st[3], where)
            elif st[0] == "whileblock":
                f.add("while-in-" + where)
                if st[4]:
                    f.add("condition-with-parameters-in-" + where)
                walk(st[3], where)
            elif st[0] in ("probe", "sprobe") and where != "top":
                f.add(st[0] + "-in-" + where)
    walk(stmts, "top")
    return f


def run_on_terminal(sb, script, args, root, timeout=60.0):
    """the same run with a pseudo-terminal as the shell's stdin, stdout and stderr"""
    import time
    import types
    import ptydrv
    s = ptydrv.PtySession(sb, env_extra={"VPROOT": root}, cwd=root, args=[script] + list(args))
    end = time.time() + timeout
    while s.alive() and time.time() < end:
        s._read(0.2)
    timed_out = s.alive()
    while s._read(0.05):
        pass
    st = s.exited
    out = s.all
    s.close()
    rc = None
    if not timed_out and st is not None and st >= 0:
        rc = os.WEXITSTATUS(st) if os.WIFEXITED(st) else -os.WTERMSIG(st)
    return types.SimpleNamespace(rc=rc, err=out, out=b"", timed_out=timed_out, diag=None, pid=s.pid)


def judge(case):
    sb = _sb
    sb.clean_work()
    sb.reset_log()
    root = os.path.realpath(sb.work)
    for d in ("d1", "d2"):
        os.makedirs(os.path.join(root, d))
    stmts, files, args = case["stmts"], case["files"], case["args"]
    for name, body in files.items():
        for d in ("", "d1", "d2"):       # reachable after a cd as well
            with open(os.path.join(root, d, name), "w") as f:
                f.write("\n".join(render(body)) + "\n")
    for n in os.listdir(sb.vpdir):
        if n.startswith(("cur.", "cond.")):
            os.unlink(os.path.join(sb.vpdir, n))

    def conds(ss):
        for st in ss:
            if st[0] == "whileblock":
                with open(os.path.join(sb.vpdir, "cond." + st[1]), "w") as f:
                    f.write(" ".join(str(c) for c in st[2]) + "\n")
                conds(st[3])
            elif st[0] == "ifchain":
                for a in st[1]:
                    conds(a[2])
                if st[2] is not None:
                    conds(st[2])
            elif st[0] in ("deffunc", "forblock", "ifblock"):
                conds(st[3])
    conds(stmts)
    for body in files.values():
        conds(body)
    script = os.path.join(root, "main.sh")
    text = "\n".join(render(stmts)) + "\n"
    if case.get("terminal"):
        # the script runs on a terminal and starts a background command first: the shell keeps a job table then
        text = "vp_job BG 0.05 bg &\n" + text
    with open(script, "w") as f:
        f.write(text)
    m = Model(script, args, files, root)
    exp_rc = None
    try:
        m.run_stmts(stmts, script, args, top=True)
        exp_rc = m.status
    except Exit as e:
        exp_rc = e.code
    if case.get("terminal"):
        r = run_on_terminal(sb, script, args, root)
    else:
        r = run_cicada(sb, [script] + args, timeout=60.0, cwd=root, env_extra={"VPROOT": root})
    res = {"script": text, "args": args, "files": {k: "\n".join(render(v)) for k, v in files.items()}, "rc": r.rc,
           "expected_rc": exp_rc, "stderr": r.err.decode("utf-8", "replace")[-300:]}
    if r.timed_out:
        return ("inconclusive", "timeout", res)
    if crashed(r):
        return ("violated", "C15:shell-crash", res)
    got = []
    for x in sb.records():
        if x["kind"] != "start" or x["name"] == "vp_job":
            continue
        if x["name"] == "vp_argv" and x["argv"][1:2] and x["argv"][1].startswith("C") and len(x["argv"]) == 2:
            got.append(("cwd", [x["argv"][1], x["cwd"]]))
        else:
            got.append((x["name"], x["argv"][1:]))
    exp = [(n, list(a)) for n, a in m.events]
    res["expected_events"], res["observed_events"] = exp[:40], got[:40]
    if got != exp:
        i = 0
        while i < min(len(exp), len(got)) and exp[i] == got[i]:
            i += 1
        we = exp[i] if i < len(exp) else ("end", [])
        he = got[i] if i < len(got) else ("end", [])

        def kind(ev):
            if ev[0] == "end":
                return "end"
            t = ev[1][0] if ev[1] else ""
            if ev[0] == "vp_status":
                return "marker"
            if ev[0] == "vp_cond":
                return "while-condition"
            return {"P": "args-probe", "S": "status-probe", "W": "variable-probe", "C": "cwd-probe", "F": "for-probe"}.get(t[:1], "other")
        what = kind(we)
        detail = ""
        if what == kind(he) and what == "args-probe" and we[1][0] == he[1][0]:
            diffs = [n for n, (a, b) in zip(["$0", "$1", "${2}", "$@"], zip(we[1][1:], he[1][1:])) if a != b]
            detail = ":" + "+".join(diffs)
            special = any(any(ch in a for ch in " *';=") or a == "" for a in case["args"]) or True
        feats = features(stmts, files)
        ctx = "+".join(sorted(x for x in feats if x.endswith(("-in-func", "-in-source")) or x in ("sete-in-top", "exit-in-top", "ifblock-in-top")))
        res["divergence_at"] = i
        return ("violated", "C15:events-diverge:expected-%s-observed-%s%s%s" % (what, kind(he), detail, ":on-a-terminal-with-a-background-job" if case.get("terminal") else ""), res)
    if r.rc != exp_rc:
        return ("violated", "C15:exit-status" + (":on-a-terminal-with-a-background-job" if case.get("terminal") else ""), res)
    return ("held", None, res)


def gen_case(rng):
    g = G(rng)
    special = rng.random() < 0.4
    args = [rng.choice(ARGS_POOL if special else ["a1", "b2", "c3", "d4", "e5"]) for _ in range(rng.randint(0, 5))]
    stmts = g.top(special, 0 if special else len(args))
    c = {"stmts": stmts, "files": g.files, "args": args, "special_args": special}
    if rng.random() < 0.06:
        c["terminal"] = True
    return c


def _retuple(x):
    if isinstance(x, list):
        if x and isinstance(x[0], str) and x[0] in ("probe", "status", "sprobe", "vprobe", "cwdprobe", "setvar", "cd", "deffunc",
                                                      "call", "source", "exit", "sete", "ifblock"):
            return tuple(_retuple(y) if i in (3,) and x[0] in ("deffunc", "ifblock") else y for i, y in enumerate(x))
        return [_retuple(y) for y in x]
    return x


def _work(case):
    try:
        return judge(case)
    except Exception as e:
        import traceback
        return ("inconclusive", "harness: %r %s" % (e, traceback.format_exc()[-500:]), {})


def run(tier, seed):
    common.build_helpers()
    cicada = common.build_cicada("debug")
    rep = Report("C15", tier, seed)
    rep.rule = ("generated scripts with 0..5 arguments (plain, or with blanks / * / ' / ; / = / empty), 0..3 functions "
                "(both header spellings, names with - and _); probes come in three spellings (parameters alone, after a single-quoted word that contains parameter syntax, inside longer double-quoted text) called with 0..4 arguments, source chains to depth 3 that "
                "set variables, define functions, cd and run commands, exit N, set -e, failing commands, if blocks; 6% of the scripts run on a pseudo-terminal after starting a background command (the shell keeps a job table then); "
                "probes of \"$0\" \"$1\" \"${2}\" \"$@\" and $? in the script, in function bodies and in sourced files.  "
                "Non-trivial = always; distinct by script + files + args.")
    rep.assumptions = ["reference model in lib/c15.py of docs/scripting.md + the statement", "\"$@\" is the arguments joined by one blank"]
    rng = common.rng_for(seed, "C15")
    n = 25000 if tier == "thorough" else 4000
    cases = [gen_case(rng) for _ in range(n)]
    results = common.pmap(_work, cases, init=_init, initargs=(cicada,), chunksize=4)
    feats = {}
    for case, (verdict, sig, res) in zip(cases, results):
        rep.case(json.dumps(case, sort_keys=True, default=str), True,
                 sample={"script": res.get("script"), "args": case["args"], "files": res.get("files")})
        for f in features(case["stmts"], case["files"]):
            feats[f] = feats.get(f, 0) + 1
        rep.count("events_compared", len(res.get("observed_events", [])))
        if verdict == "held":
            rep.hold()
        elif verdict == "violated":
            rep.violate(sig, case, res)
        else:
            rep.inconc(sig, res)
    rep.extra["features_exercised"] = feats
    return rep.finish()


def replay(path):
    common.build_helpers()
    cicada = common.build_cicada("debug")
    _init(cicada)
    with open(path) as f:
        data = json.load(f)
    bad = 0
    for c in data["cases"]:
        case = c["case"]

        def fix(ss):
            out = []
            for st in ss:
                st = list(st)
                if st[0] in ("deffunc", "ifblock"):
                    st[3] = fix(st[3])
                out.append(tuple(st))
            return out
        case["stmts"] = fix(case["stmts"])
        case["files"] = {k: fix(v) for k, v in case["files"].items()}
        v, sig, res = judge(case)
        print(v, sig, json.dumps(res, default=str)[:1500])
        if v == "violated":
            bad = 1
    if bad:
        print("VIOLATION property=C15 replay=%s" % path)
    return bad
